# sourced by every script in /verif/bin
export VERIF_ROOT="${VERIF_ROOT:-/verif}"
export GOFLAGS=-mod=mod GOPROXY=off GOSUMDB=off GOTOOLCHAIN=local
export GOCACHE="$VERIF_ROOT/.cache/go-build"
export GO=/opt/veriftools/go1.26.8/bin/go
export GOROOT_VERIF=/opt/veriftools/go1.26.8
export GODEBUG=randseednop=0
mkdir -p "$VERIF_ROOT/.cache" "$VERIF_ROOT/.work" "$VERIF_ROOT/out/replay" "$VERIF_ROOT/evidence"

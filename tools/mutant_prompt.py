#!/usr/bin/env python3
"""Prints the prompt given to an independent sub-agent that seeds a property-breaking change."""
import json, sys
pid = sys.argv[1]
wt = sys.argv[2]
names = sys.argv[3] if len(sys.argv) > 3 else "A,B"
n1, n2 = names.split(",")
taken = ""
try:
    import glob, os
    lines = []
    for f in sorted(glob.glob('/verif/seeded/%s-*/meta.json' % pid)):
        m = json.load(open(f))
        lines.append("  - " + m["breaks"])
    if lines:
        taken = "\nOther people already produced the following changes for this property; yours must use DIFFERENT mechanisms (different code site or different kind of mistake):\n" + "\n".join(lines) + "\n"
except Exception:
    pass
for l in open('/verif/properties.jsonl'):
    p = json.loads(l)
    if p['id'] == pid:
        break
else:
    sys.exit("no such property")
print(f"""You are helping evaluate verification tooling for the Go project ava-labs/hypersdk. Your job: write a SUBTLE, REALISTIC bug.

You have your own scratch git worktree of the repository at {wt} (work ONLY there; never touch /repo or /verif, never read /verif).

The following semantic property of hypersdk currently holds (or is intended to hold):

{json.dumps({k: p[k] for k in ('id','title','statement','quantifier','anchors')}, indent=1)}

Task: produce TWO different, independent changes (call them {n1} and {n2}) to the non-test Go source of hypersdk in that worktree, each of which BREAKS this property, while
  * the repository still compiles (go build ./... and go vet of the touched packages), and
  * the existing tests of the touched packages (and of packages that directly depend on them, e.g. ./chain/... ./vm/... ./snow/... where relevant) still pass unchanged - do not edit or delete any existing test;
  * the change looks like a plausible mistake or an innocent-looking refactor/optimisation a real developer could make (off-by-one at a boundary, dropped/misplaced lock or wake-up, wrong order of two steps, missed cleanup on an error path, wrong condition on a rare branch, lost update, stale cache...), NOT an obviously sabotaged line;
  * the break needs something SPECIFIC to manifest: a particular goroutine interleaving, a crash or fault at a particular point, a multi-step sequence of operations, an unusual input/configuration, or two cooperating sites that each look fine alone. It must NOT be exposed at once by ordinary use (otherwise the existing tests would fail).
  * do not touch lines containing `verifhook.` (instrumentation) and do not modify files under internal/verifhook.

{taken}
For each change provide a demonstration: a new Go test file (or small program) that FAILS with the change applied and PASSES without it, showing the property violation concretely (if an interleaving is needed, the demonstration may force it with sleeps/channels/hooks placed in the test, or loop until it happens).

Environment (sealed sandbox, no network). In every shell call first run:
  export GOFLAGS=-mod=mod GOPROXY=off GOSUMDB=off GOTOOLCHAIN=local PATH=/opt/veriftools/go1.26.8/bin:$PATH
and use `go` (1.26.8). Building the whole repo cold takes a few minutes; prefer per-package builds/tests, e.g. `go test -count=1 ./internal/executor/`. Do not run the entire test suite of the repo (25 min); run the tests of the touched packages and their direct dependents only.

Deliverables, written into {wt}/MUTANTS/ (create it):
  {n1}.diff, {n2}.diff    - `git diff` of each change alone against the worktree's HEAD (source change only, not the demo)
  {n1}_demo_test.go, {n2}_demo_test.go (or demo programs) - plus a line at the top of each saying in which package directory it must be placed and the command to run it
  README.md         - for each change: what it breaks, what exactly is needed for it to manifest (interleaving / fault / sequence / input), which existing tests you ran and that they pass, and that the demo fails with / passes without the change.
Never use `git stash` (the stash is shared between worktrees of other people working in parallel); use `git diff > file` and `git checkout -- .` instead. Leave the worktree's tracked files UNMODIFIED at the end (git checkout -- . after saving the diffs), with only MUTANTS/ as untracked content.
Extra notes: in package x/dsmr the existing test TestGetChunkSignature_PersistAttestedBlocks hangs even on the unmodified tree (known, unrelated): run that package with `-skip TestGetChunkSignature_PersistAttestedBlocks -timeout 300s`. Other people work in sibling worktrees at the same time: the machine is shared, so a test that passes alone may time out under load - re-run before concluding.
Reply with a 10-line summary of the two changes.""")

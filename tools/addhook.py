"""Helpers to insert add-only hook lines into Go files of /repo."""
import re, sys

class F:
    def __init__(self, path):
        self.path = path
        self.s = open(path).read()
    def _find(self, anchor, nth):
        idx = -1
        for _ in range(nth):
            idx = self.s.index(anchor, idx + 1)
        return idx
    def before(self, anchor, line, nth=1):
        idx = self._find(anchor, nth)
        # anchor may start with whitespace/newlines; locate first non-ws char of anchor
        off = len(anchor) - len(anchor.lstrip())
        idx += off
        ls = self.s.rfind('\n', 0, idx) + 1
        indent = re.match(r'[\t ]*', self.s[ls:]).group(0)
        self.s = self.s[:ls] + indent + line + '\n' + self.s[ls:]
    def after(self, anchor, line, nth=1, indent_more=False):
        idx = self._find(anchor, nth)
        off = len(anchor) - len(anchor.lstrip())
        idx += off
        # end of the anchor's last line
        end = idx + len(anchor.lstrip())
        le = self.s.index('\n', end - 1) + 1
        ls = self.s.rfind('\n', 0, end - 1) + 1
        indent = re.match(r'[\t ]*', self.s[ls:]).group(0)
        if indent_more:
            indent += '\t'
        self.s = self.s[:le] + indent + line + '\n' + self.s[le:]
    def imp(self, after_import='"github.com/ava-labs/hypersdk/', path='"github.com/ava-labs/hypersdk/internal/verifhook"'):
        if path in self.s:
            return
        # insert into import block keeping gofmt grouping: add before first hypersdk import that sorts after, else new group
        m = re.search(r'import \(\n(.*?)\n\)', self.s, re.S)
        if not m:
            m1 = re.search(r'import ("[^"]+")\n', self.s)
            if m1:
                self.s = self.s.replace(m1.group(0), 'import (\n\t%s\n\n\t%s\n)\n' % (m1.group(1), path), 1)
                return
            raise SystemExit('no import block in ' + self.path)
        block = m.group(1)
        lines = block.split('\n')
        hs = [i for i, l in enumerate(lines) if '"github.com/ava-labs/hypersdk/' in l]
        if hs:
            pos = None
            for i in hs:
                imp = lines[i].strip().split(' ')[-1]
                if imp > path:
                    pos = i
                    break
            if pos is None:
                pos = hs[-1] + 1
            lines.insert(pos, '\t' + path)
        else:
            lines += ['', '\t' + path]
        self.s = self.s[:m.start(1)] + '\n'.join(lines) + self.s[m.end(1):]
    def save(self):
        open(self.path, 'w').write(self.s)

// Package e5 is the DSMR engine: complete x/dsmr nodes (real chunk storage, verifier, p2p handlers,
// signature aggregation, validity window) wired over avalanchego's in-memory p2p test network
// inside the simulator's bubble, with fault-injecting peers.
package e5

import (
	"testing"

	"github.com/ava-labs/hypersdk/verifsim/simk"
)

var props = map[string]*simk.Prop{}

func register(p *simk.Prop) { props[p.ID] = p }

func TestEngine(t *testing.T) { simk.Main(t, props) }

package e5

import (
	"context"
	"fmt"
	"math/rand"
	"strings"
	"sync"
	"sync/atomic"
	"time"

	"github.com/ava-labs/avalanchego/ids"
	"github.com/ava-labs/avalanchego/utils/wrappers"

	"github.com/ava-labs/hypersdk/codec"
	"github.com/ava-labs/hypersdk/consts"
	"github.com/ava-labs/hypersdk/utils"
	"github.com/ava-labs/hypersdk/verifsim/simk"
	"github.com/ava-labs/hypersdk/x/dsmr"
	"github.com/ava-labs/hypersdk/x/dsmr/dsmrtest"
)

func init() {
	register(&simk.Prop{
		ID:    "C37",
		Level: "exploration",
		Rule: "seeded histories over a network of 3 complete DSMR nodes and a block tree: chunks with seeded expiries are built and certified (real BLS aggregation); blocks are proposed on any processing tip or on the last accepted block either by a node's own BuildBlock or by a faulty proposer that assembles any multiset of known certificates (already referenced by an ancestor on that branch, by a block of another branch, expired at the block timestamp, twice in one block) at seeded timestamps; every node verifies every proposal; a decision picks one verified child of the last accepted block, siblings are dropped, and each node accepts decided blocks at its own pace (a lagging node still walks processing ancestors where an up-to-date node consults its accepted set, including after eviction of expired certificates); on one up-to-date node the accept of a decided block runs as a task concurrently with the verification (or the building) of a child that references one of that block's chunks again, interleaved by the seeded scheduler at the validity window's lock and unlock points; " +
			"oracle: an independent ancestry model — a proposal referencing a chunk twice, a chunk referenced by an ancestor on its own chain, or a chunk whose expiry is before the block timestamp must be rejected by Verify on every node, in every interleaving with a concurrent accept; BuildBlock must never return such a block; over the accepted chain of every node no chunk (hence no transaction) is delivered twice and the executed chunks are exactly the certificates' chunks. non-trivial = >=1 faulty proposal judged and >=1 accept; distinct = history hashes",
		Exec:        c37,
		Real:        []string{"x/dsmr.Node (BuildChunk, BuildBlock, Verify, Accept)", "validity window over chunk certificates (internal/validitywindow + emap)", "x/dsmr.ChunkStorage + ChunkVerifier (expiry vs accepted minimum)", "acp118 signature aggregation, certificate gossip, chunk requests over avalanchego's in-memory p2p test network", "BLS signing/verification"},
		Stub:        []string{"validator set / chain state (static)", "consensus (a global decision per height; per-node accept lag)", "block store of each node (map)", "databases (memdb)"},
		Assumptions: []string{"certificates are produced by the nodes themselves (honest quorum): forged certificates are out of scope of this property", "math/rand's global source is re-seeded per run"},
	})
}

type c37Block struct {
	blk      dsmr.Block
	parent   *c37Block
	certIDs  []ids.ID
	children []*c37Block
	dead     bool
	name     string
}

func c37(r *simk.Run) *simk.Violation {
	c := r.C
	s := r.NewSim()
	s.KeepLog = simk.WantLog()
	s.Horizon = time.Hour
	// scheduling points: only during the concurrent accept-vs-verify/build phases, and only those of the
	// validity window (the chunk storage holds its own plain lock across the instrumented emap calls, so
	// a task must never be parked there)
	var concurrent atomic.Bool
	s.Pass = func(site string) bool {
		if !concurrent.Load() {
			return true
		}
		return !(strings.HasPrefix(site, "go:") || strings.HasPrefix(site, "validitywindow.") || strings.HasPrefix(site, "auto.unlock:internal/validitywindow/"))
	}
	var viol *simk.Violation
	var violMu sync.Mutex
	fail := func(class, f string, a ...any) {
		violMu.Lock()
		defer violMu.Unlock()
		if viol == nil {
			viol = &simk.Violation{Class: "C37/" + class, Detail: fmt.Sprintf(f, a...)}
		}
	}
	failed := func() bool {
		violMu.Lock()
		defer violMu.Unlock()
		return viol != nil
	}
	const nNodes = 3
	window := []int64{5, 10, 20, 40}[c.Intn(4)]
	quorumAll := c.Bool(0.5)
	nOps := 4 + c.Intn(14)
	lagNode := -1
	if c.Bool(0.6) {
		lagNode = c.Intn(nNodes)
	}
	var hist []string
	note := func(f string, a ...any) { hist = append(hist, fmt.Sprintf(f, a...)) }
	judged, accepts := 0, 0

	s.Run(r.T, func() {
		ctx := context.Background()
		rand.Seed(4242) //nolint:staticcheck // the node picks the peer to ask with the global source
		qn := uint64(2)
		if quorumAll {
			qn = 3
		}
		nodes, err := newNet(ctx, r.T, netCfg{N: nNodes, Window: window, QuorumNum: qn, QuorumDen: 3, PlanForNode: -1, Genesis: dsmr.Block{}})
		if err != nil {
			fail("harness", "network: %v", err)
			return
		}
		genesis := &c37Block{blk: dsmr.Block{}, name: "G"}
		lastAccepted := genesis
		live := []*c37Block{genesis} // last accepted + processing (verified by every node) blocks
		type certInfo struct {
			cert *dsmr.ChunkCertificate
			name string
		}
		var certs []certInfo
		known := map[ids.ID]bool{}
		certName := map[ids.ID]string{}
		// per node: decided blocks it has not accepted yet, its accepted height and delivered chunks
		queue := make([][]*c37Block, nNodes)
		nodeTS := make([]int64, nNodes)
		delivered := make([]map[ids.ID]string, nNodes)
		for i := range delivered {
			delivered[i] = map[ids.ID]string{}
		}
		txn := 0

		// model predicate: first broken clause of a proposal on parent p, or ""
		judge := func(p *c37Block, ts int64, cs []*dsmr.ChunkCertificate) (string, string) {
			seen := map[ids.ID]bool{}
			for _, ct := range cs {
				if seen[ct.ChunkID] {
					return "duplicate-in-block", fmt.Sprintf("chunk %s is referenced twice in the block", certName[ct.ChunkID])
				}
				seen[ct.ChunkID] = true
			}
			for _, ct := range cs {
				if ct.Expiry < ts {
					return "expired-chunk", fmt.Sprintf("chunk %s expires at %d, before the block timestamp %d", certName[ct.ChunkID], ct.Expiry, ts)
				}
			}
			for a := p; a != nil; a = a.parent {
				for _, id := range a.certIDs {
					if seen[id] {
						return "chunk-of-ancestor", fmt.Sprintf("chunk %s is already referenced by ancestor %s (timestamp %d)", certName[id], a.name, a.blk.Timestamp)
					}
				}
			}
			return "", ""
		}
		acceptOn := func(i int, b *c37Block) bool {
			n := nodes[i]
			done := make(chan struct{})
			var ex dsmr.ExecutedBlock[dsmrtest.Tx]
			var aerr error
			go func() {
				defer close(done)
				ex, aerr = n.Node.Accept(ctx, b.blk)
			}()
			select {
			case <-done:
			case <-time.After(10 * time.Minute):
				fail("harness", "node %d: Accept of %s did not return; history=%v", i, b.name, hist)
				return false
			}
			if aerr != nil {
				fail("harness", "node %d: Accept of verified block %s failed: %v; history=%v", i, b.name, aerr, hist)
				return false
			}
			nodeTS[i] = b.blk.Timestamp
			if len(ex.Chunks) != len(b.certIDs) {
				fail("executed-chunks-differ", "node %d: accepting %s delivered %d chunks for %d certificates; history=%v", i, b.name, len(ex.Chunks), len(b.certIDs), hist)
				return false
			}
			for _, ch := range ex.Chunks {
				id := chunkID(ch)
				if prev, ok := delivered[i][id]; ok {
					fail("chunk-delivered-twice", "node %d: chunk %s (and its %d transactions) was delivered by accepted block %s and again by accepted block %s; history=%v", i, certName[id], len(ch.Txs), prev, b.name, hist)
					return false
				}
				delivered[i][id] = b.name
			}
			return true
		}
		flush := func(i int, all bool) bool {
			for len(queue[i]) > 0 {
				if !all && i == lagNode && c.Bool(0.6) {
					return true
				}
				b := queue[i][0]
				queue[i] = queue[i][1:]
				if !acceptOn(i, b) {
					return false
				}
			}
			return true
		}
		refreshCerts := func() {
			for _, n := range nodes {
				for _, ct := range n.Storage.GatherChunkCerts() {
					if !known[ct.ChunkID] {
						known[ct.ChunkID] = true
						nm := fmt.Sprintf("c%d(exp %d)", len(certs), ct.Expiry)
						certName[ct.ChunkID] = nm
						certs = append(certs, certInfo{cert: ct, name: nm})
					}
				}
			}
		}
		propose := func(kind string, p *c37Block, blk dsmr.Block) {
			cs := blk.ChunkCerts
			clause, why := judge(p, blk.Timestamp, cs)
			var names []string
			for _, ct := range cs {
				names = append(names, certName[ct.ChunkID])
			}
			nb := &c37Block{blk: blk, parent: p, name: fmt.Sprintf("B%d", len(hist))}
			for _, ct := range cs {
				nb.certIDs = append(nb.certIDs, ct.ChunkID)
			}
			note("%s %s: parent %s ts %d certs %v", kind, nb.name, p.name, blk.Timestamp, names)
			if kind == "built" && clause != "" {
				fail("builder-produces-"+clause, "BuildBlock on parent %s at timestamp %d returned a block in which %s; history=%v", p.name, blk.Timestamp, why, hist)
				return
			}
			if kind == "faulty" {
				judged++
			}
			okAll := true
			for i, n := range nodes {
				verr := n.Node.Verify(ctx, p.blk, blk)
				if verr == nil && clause != "" {
					acc := "has accepted up to timestamp"
					fail("verify-accepts-"+clause, "node %d (%s %d) verified proposal %s on parent %s at timestamp %d although %s; history=%v", i, acc, nodeTS[i], nb.name, p.name, blk.Timestamp, why, hist)
					return
				}
				if verr != nil {
					okAll = false
					if clause == "" {
						s.Probe("valid_proposal_rejected")
						note("  node %d rejects valid %s: %v", i, nb.name, verr)
					}
				}
			}
			if clause == "" && okAll {
				for _, n := range nodes {
					n.remember(blk)
				}
				p.children = append(p.children, nb)
				live = append(live, nb)
			} else if clause != "" {
				s.Probe("faulty_rejected_" + clause)
			}
		}
		var kill func(b *c37Block)
		kill = func(b *c37Block) {
			b.dead = true
			for _, ch := range b.children {
				kill(ch)
			}
		}

		for op := 0; op < nOps && !failed(); op++ {
			// let certificate gossip and other p2p deliveries of the previous step finish: bubble time
			// only moves once every goroutine is blocked
			time.Sleep(time.Millisecond)
			for i := range nodes {
				if !flush(i, false) {
					return
				}
			}
			// live tips
			var tips []*c37Block
			for _, b := range live {
				if !b.dead {
					tips = append(tips, b)
				}
			}
			switch c.Weighted(4, 4, 4, 2) {
			case 0: // a node builds and certifies a chunk
				p := c.Intn(nNodes)
				// signers only sign an expiry inside [their accepted timestamp, that + window]
				lo, hi := nodeTS[0], nodeTS[0]+window
				for _, ts := range nodeTS {
					lo, hi = max(lo, ts), min(hi, ts+window)
				}
				exp := lo
				if hi > lo {
					exp = lo + int64(c.Intn(int(hi-lo)+1))
				}
				if c.Bool(0.15) {
					exp = nodeTS[p] + int64(c.Intn(int(window)+3)) // possibly refused by some or all signers
				}
				var txs []dsmrtest.Tx
				for k := 0; k <= c.Intn(2); k++ {
					txn++
					txs = append(txs, dsmrtest.Tx{ID: ids.Empty.Prefix(uint64(txn)), Expiry: exp, Sponsor: codec.Address{byte(txn)}})
				}
				if err := nodes[p].Node.BuildChunk(ctx, txs, exp, codec.Address{}); err != nil {
					note("chunk by node %d exp %d: not certified (%v)", p, exp, err)
					s.Probe("chunk_not_certified")
				} else {
					note("chunk by node %d exp %d", p, exp)
				}
				refreshCerts()
			case 1: // honest proposal (mostly on the deepest processing tip: chains of undecided blocks grow)
				b := c.Intn(nNodes)
				p := tips[c.Intn(len(tips))]
				if c.Bool(0.6) {
					for _, t := range tips {
						if t.blk.Height > p.blk.Height {
							p = t
						}
					}
				}
				ts := p.blk.Timestamp + 1 + int64(c.Intn(int(window)/2+2))
				if c.Bool(0.6) {
					ts = p.blk.Timestamp + 1 + int64(c.Intn(2)) // slow clock: certificates stay valid over several blocks
				}
				blk, err := nodes[b].Node.BuildBlock(ctx, p.blk, ts)
				if err != nil {
					note("node %d builds on %s at %d: %v", b, p.name, ts, err)
					continue
				}
				refreshCerts()
				propose("built", p, blk)
			case 2: // faulty proposal
				if len(certs) == 0 {
					continue
				}
				p := tips[c.Intn(len(tips))]
				var ts int64
				var cs []*dsmr.ChunkCertificate
				k := 1 + c.Intn(3)
				for j := 0; j < k; j++ {
					var anc []*dsmr.ChunkCertificate
					for a := p; a != nil; a = a.parent {
						anc = append(anc, a.blk.ChunkCerts...)
					}
					var pick *dsmr.ChunkCertificate
					switch {
					case len(cs) > 0 && c.Bool(0.1):
						cs = append(cs, cs[c.Intn(len(cs))])
						continue
					case len(anc) > 0 && c.Bool(0.4):
						pick = anc[c.Intn(len(anc))]
					default:
						pick = certs[c.Intn(len(certs))].cert
					}
					dup := false
					for _, o := range cs {
						dup = dup || o.ChunkID == pick.ChunkID
					}
					if !dup {
						cs = append(cs, pick)
					}
				}
				minExp := cs[0].Expiry
				for _, ct := range cs {
					minExp = min(minExp, ct.Expiry)
				}
				switch {
				case minExp > p.blk.Timestamp && c.Bool(0.65): // no referenced chunk has expired
					ts = p.blk.Timestamp + 1 + int64(c.Intn(int(minExp-p.blk.Timestamp)))
					if c.Bool(0.3) {
						ts = minExp // boundary: expiry == block timestamp is still allowed
					}
				case c.Bool(0.3):
					ts = max(p.blk.Timestamp, minExp) + 1 // boundary: first expired timestamp
				case c.Bool(0.3):
					ts = p.blk.Timestamp + 1 + int64(c.Intn(3*int(window)))
				default:
					ts = p.blk.Timestamp + 1 + int64(c.Intn(int(window)+3))
				}
				blk, err := dsmr.VerifNewBlock(dsmr.BlockHeader{ParentID: p.blk.GetID(), Height: p.blk.Height + 1, Timestamp: ts}, cs)
				if err != nil {
					fail("harness", "assembling a block: %v", err)
					return
				}
				propose("faulty", p, blk)
			case 3: // decide one child of the last accepted block
				var cands []*c37Block
				for _, ch := range lastAccepted.children {
					if !ch.dead {
						cands = append(cands, ch)
					}
				}
				if len(cands) == 0 {
					continue
				}
				win := cands[c.Intn(len(cands))]
				for _, ch := range cands {
					if ch != win {
						kill(ch)
					}
				}
				lastAccepted.dead = true // no further children of an accepted block that has an accepted child
				lastAccepted = win
				accepts++
				note("decide %s", win.name)
				// on one up-to-date node the accept may run concurrently with the verification (or the
				// building) of a child that references one of the accepted block's own chunks again: in
				// every interleaving the child must be rejected (the builder must leave the chunk out)
				cj := -1
				if c.Bool(0.5) {
					for i := range nodes {
						if len(queue[i]) == 0 && i != lagNode {
							cj = i
							break
						}
					}
				}
				for i := range nodes {
					if i != cj {
						queue[i] = append(queue[i], win)
					}
				}
				if cj >= 0 {
					re := win.blk.ChunkCerts[c.Intn(len(win.blk.ChunkCerts))]
					ts := win.blk.Timestamp + 1
					if re.Expiry > ts && c.Bool(0.5) {
						ts = win.blk.Timestamp + 1 + int64(c.Intn(int(re.Expiry-win.blk.Timestamp)))
					}
					build := c.Bool(0.4)
					child, err := dsmr.VerifNewBlock(dsmr.BlockHeader{ParentID: win.blk.GetID(), Height: win.blk.Height + 1, Timestamp: ts}, []*dsmr.ChunkCertificate{re})
					if err != nil {
						fail("harness", "assembling a block: %v", err)
						return
					}
					clause, why := judge(win, ts, child.ChunkCerts)
					var verr, berr error
					var built dsmr.Block
					var aok bool
					done := make(chan struct{}, 2)
					concurrent.Store(true)
					s.Go("c37.accept", uint64(cj), func() {
						aok = acceptOn(cj, win)
						done <- struct{}{}
					})
					s.Go("c37.child", uint64(cj), func() {
						if build {
							built, berr = nodes[cj].Node.BuildBlock(ctx, win.blk, ts)
						} else {
							verr = nodes[cj].Node.Verify(ctx, win.blk, child)
						}
						done <- struct{}{}
					})
					<-done
					<-done
					concurrent.Store(false)
					s.Probe("concurrent_accept_phase")
					if !aok {
						return
					}
					if build {
						note("  node %d builds on %s at %d while accepting it: err=%v", cj, win.name, ts, berr)
						if berr == nil {
							if cl, wy := judge(win, ts, built.ChunkCerts); cl != "" {
								fail("builder-produces-"+cl+"-during-accept", "node %d: BuildBlock on parent %s at timestamp %d, running while the node accepts %s, returned a block in which %s; history=%v", cj, win.name, ts, win.name, wy, hist)
								return
							}
						}
					} else {
						note("  node %d verifies a child of %s re-referencing %s at %d while accepting it: err=%v", cj, win.name, certName[re.ChunkID], ts, verr)
						judged++
						if verr == nil {
							fail("verify-accepts-"+clause+"-during-accept", "node %d verified a child of %s at timestamp %d while it was accepting %s, although %s; history=%v", cj, win.name, ts, win.name, why, hist)
							return
						}
					}
				}
			}
		}
		for i := range nodes {
			if failed() || !flush(i, true) {
				return
			}
		}
		// the accepted chain of every node must not deliver a chunk twice (checked incrementally above);
		// cross-check with the model's chain
		seen := map[ids.ID]string{}
		for a := lastAccepted; a != nil; a = a.parent {
			for _, id := range a.certIDs {
				if prev, ok := seen[id]; ok {
					fail("chunk-delivered-twice", "accepted chain references chunk %s in %s and %s; history=%v", certName[id], a.name, prev, hist)
					return
				}
				seen[id] = a.name
			}
		}
	})
	r.Fingerprint("%d %v %v", window, quorumAll, hist)
	r.Sample(map[string]any{"window": window, "quorum_all": quorumAll, "lagging_node": lagNode, "history": hist})
	if judged > 0 && accepts > 0 {
		r.Nontrivial()
	}
	if v := s.Violation(); v != nil {
		return v
	}
	if viol != nil {
		return viol
	}
	if s.Hung && !s.StepLimit {
		return &simk.Violation{Class: "C37/hang", Detail: "scenario never finished: " + s.HangInfo}
	}
	return nil
}

// chunkID recomputes a chunk's ID from its canonical encoding (the package keeps it unexported).
func chunkID(ch dsmr.Chunk[dsmrtest.Tx]) ids.ID {
	packer := wrappers.Packer{Bytes: make([]byte, 0, dsmr.InitialChunkSize), MaxSize: consts.NetworkSizeLimit}
	if err := codec.LinearCodec.MarshalInto(&ch, &packer); err != nil {
		return ids.Empty
	}
	return utils.ToID(packer.Bytes)
}

package e5

import (
	"bytes"
	"context"
	"errors"
	"fmt"
	"math/rand"
	"sync/atomic"
	"time"

	"github.com/ava-labs/avalanchego/ids"

	"github.com/ava-labs/hypersdk/codec"
	"github.com/ava-labs/hypersdk/verifsim/simk"
	"github.com/ava-labs/hypersdk/x/dsmr"
	"github.com/ava-labs/hypersdk/x/dsmr/dsmrtest"
)

func init() {
	register(&simk.Prop{
		ID:    "C35",
		Level: "exploration",
		Rule: "seeded networks of 3..4 complete DSMR nodes; one validator (the victim) is unreachable while 1..4 chunks (1..3 transactions each) are built and certified by the others (BLS signature aggregation over the real p2p handlers, quorum (N-1)/N: every reachable validator signs), so it holds none of them; a seeded subset is then handed to it locally; in 35% of the runs every chunk comes from one producer, the per-producer pending-weight limit is lowered to exactly that producer's pending weight and the victim additionally holds 1..2 chunks the producer signed for it alone (delivered through the victim's real signature-request logic); a block referencing all certificates is built by a producer, verified by every node and accepted; in 16% of the runs only the producer answers signature requests (quorum 1/N), so it is the single holder of every chunk and the other nodes fetch in a seeded order; in 30% of the runs one chunk write of the victim's own store fails once during its Accept (transient disk error); the victim's chunk requests are answered by its peers through a fault plan drawn before the run (honest, error, garbage bytes, another valid chunk, truncated bytes, the right chunk 2.4 s or 1 s late; honest after <=6 faulty answers); " +
			"oracle: Accept succeeds on every node and returns exactly the chunks the block's certificates reference, in certificate order, byte-identical to what the producer stored, whether a chunk was local or fetched. non-trivial = >=1 chunk fetched remotely and >=1 local on the victim; distinct = scenario hashes",
		Exec:        c35,
		Real:        []string{"x/dsmr.Node (BuildChunk, BuildBlock, Verify, Accept)", "x/dsmr.ChunkStorage + ChunkVerifier", "GetChunkHandler, ChunkSignatureRequestVerifier + acp118 handler/aggregator, certificate gossip handler", "typed p2p clients over avalanchego's in-memory p2p test network", "validity window over chunk certificates", "BLS signing/verification"},
		Stub:        []string{"validator set / chain state (static)", "peers' answers to the victim's chunk requests (fault plan)", "databases (memdb)", "consensus (blocks are handed to the nodes in order)"},
		Assumptions: []string{"math/rand's global source is re-seeded per run so that the node's random peer choice replays"},
	})
}

func c35(r *simk.Run) *simk.Violation {
	c := r.C
	s := r.NewSim()
	s.KeepLog = simk.WantLog()
	s.Horizon = time.Hour
	// no scheduling points: the storage's locks are held across the instrumented emap calls, and the
	// scenario is sequential (the p2p goroutines only interact through channels)
	s.Pass = func(string) bool { return true }
	var viol *simk.Violation
	fail := func(class, f string, a ...any) {
		if viol == nil {
			viol = &simk.Violation{Class: "C35/" + class, Detail: fmt.Sprintf(f, a...)}
		}
	}
	nNodes := 3 + c.Intn(2)
	victim := 1 + c.Intn(nNodes-1)
	nChunks := 1 + c.Intn(4)
	type chunkPlan struct {
		producer int
		txs      int
		local    bool // handed to the victim before the block arrives
	}
	plans := make([]chunkPlan, nChunks)
	for i := range plans {
		p := c.Intn(nNodes)
		for p == victim {
			p = (p + 1) % nNodes
		}
		plans[i] = chunkPlan{producer: p, txs: 1 + c.Intn(3), local: c.Bool(0.4)}
	}
	// rate-limited mode: every chunk comes from one producer, the per-producer pending-weight limit is set
	// to exactly what that producer has pending, and the victim additionally holds chunks the producer
	// handed to it alone (so its own pending weight for that producer is at or above the others')
	limited := c.Bool(0.35)
	nExtra := 0
	if limited {
		for i := range plans {
			plans[i].producer = plans[0].producer
		}
		nExtra = 1 + c.Intn(2)
	}
	// a transient local disk fault on the victim: the k-th chunk write during its Accept fails once
	diskFaultAt := 0
	if c.Bool(0.3) {
		diskFaultAt = 1 + c.Intn(3)
	}
	// single-holder mode: nobody but the producer answers signature requests (quorum 1/N), so the producer
	// is the only validator that holds the chunks; every other node has to fetch them from exactly that peer
	single := !limited && c.Bool(0.25)
	if single {
		for i := range plans {
			plans[i].producer = plans[0].producer
		}
	}
	nFaulty := c.Intn(7)
	fp := &faultPlan{}
	for i := 0; i < nFaulty; i++ {
		fp.behaviour = append(fp.behaviour, c.Intn(nFaults))
	}
	sample := map[string]any{"nodes": nNodes, "victim": victim, "rate_limited": limited, "single_holder": single, "extra_chunks_on_victim_only": nExtra, "chunks": fmt.Sprintf("%+v", plans), "fault_plan": func() []string {
		var o []string
		for _, b := range fp.behaviour {
			o = append(o, fNames[b])
		}
		return o
	}()}
	r.Fingerprint("%v", sample)
	nontrivial := false

	s.Run(r.T, func() {
		ctx := context.Background()
		rand.Seed(12345)               //nolint:staticcheck // the node picks the peer to ask with the global source
		fp.stuck = make(chan struct{}) // created inside the bubble
		weight := &atomic.Uint64{}
		weight.Store(1 << 40)
		noSig := map[int]bool{victim: true}
		qn := uint64(nNodes - 1)
		if single {
			qn = 1
			for i := 0; i < nNodes; i++ {
				if i != plans[0].producer {
					noSig[i] = true
				}
			}
		}
		nodes, err := newNet(ctx, r.T, netCfg{N: nNodes, Window: 100_000, QuorumNum: qn, QuorumDen: uint64(nNodes), NoSigFrom: noSig, Plan: fp, PlanForNode: victim, Genesis: dsmr.Block{}, Weight: weight})
		if err != nil {
			fail("harness", "network: %v", err)
			return
		}
		// build and certify the chunks
		txn := 0
		for i, p := range plans {
			var txs []dsmrtest.Tx
			for k := 0; k < p.txs; k++ {
				txn++
				txs = append(txs, dsmrtest.Tx{ID: ids.Empty.Prefix(uint64(txn)), Expiry: 50_000, Sponsor: codec.Address{byte(txn)}})
			}
			if err := nodes[p.producer].Node.BuildChunk(ctx, txs, int64(1000*(10+i)), codec.Address{}); err != nil {
				fail("harness", "BuildChunk %d by node %d: %v", i, p.producer, err)
				return
			}
		}
		// the block: built by the first producer from the certificates it knows (gossip reached every
		// reachable node); certificates of other producers' chunks arrive through gossip
		builder := nodes[plans[0].producer]
		blk, err := builder.Node.BuildBlock(ctx, dsmr.Block{}, 10)
		if err != nil {
			fail("harness", "BuildBlock: %v", err)
			return
		}
		// reference bytes per referenced chunk, from a node that holds it
		ref := map[ids.ID][]byte{}
		for _, cert := range blk.ChunkCerts {
			for i, n := range nodes {
				if i == victim {
					continue
				}
				if b, err := n.Storage.GetChunkBytes(cert.Expiry, cert.ChunkID); err == nil {
					ref[cert.ChunkID] = b
					break
				}
			}
			if ref[cert.ChunkID] == nil {
				fail("harness", "no node holds chunk %s", cert.ChunkID)
				return
			}
		}
		if limited {
			// the limit now equals what the producer has pending everywhere else
			var sum uint64
			for _, b := range ref {
				sum += uint64(len(b))
			}
			weight.Store(sum)
			// chunks the producer signed and sent to the victim alone, through the victim's real
			// signature-request logic (which applies the rate limit to what it signs)
			prod := nodes[plans[0].producer]
			stored := 0
			for k := 0; k < nExtra; k++ {
				txn++
				ch, err := dsmr.VerifSignChunk[dsmrtest.Tx](dsmr.UnsignedChunk[dsmrtest.Tx]{Producer: prod.ID, Expiry: int64(1000 * (40 + k)),
					Txs: []dsmrtest.Tx{{ID: ids.Empty.Prefix(uint64(txn)), Expiry: 50_000, Sponsor: codec.Address{byte(txn)}}}}, networkID, chainID, prod.PK, prod.Signer)
				if err != nil {
					fail("harness", "signing an extra chunk: %v", err)
					return
				}
				if appErr := nodes[victim].SigVerifier.Verify(ctx, nil, ch.VerifBytes()); appErr == nil {
					stored++
				}
			}
			sample["extra_chunks_stored_on_victim"] = stored
			if stored > 0 {
				s.Probe("victim_pending_weight_at_limit")
			}
		}
		// some chunks reach the victim before the block (it signed them after all, or fetched them earlier)
		locals, remotes := 0, 0
		for i, cert := range blk.ChunkCerts {
			if i < len(plans) && plans[i].local {
				ch, err := dsmr.ParseChunk[dsmrtest.Tx](ref[cert.ChunkID])
				if err != nil {
					fail("harness", "%v", err)
					return
				}
				if _, err := nodes[victim].Storage.VerifyRemoteChunk(ch); err != nil {
					fail("harness", "local hand-over: %v", err)
					return
				}
				locals++
			} else {
				remotes++
			}
		}
		if len(blk.ChunkCerts) > 0 {
			fp.mu.Lock()
			fp.other = ref[blk.ChunkCerts[len(blk.ChunkCerts)-1].ChunkID]
			fp.mu.Unlock()
		}
		if locals > 0 && remotes > 0 {
			nontrivial = true
		}
		sample["certs_in_block"] = len(blk.ChunkCerts)
		sample["local_on_victim"] = locals
		// every node verifies and accepts; the victim last
		order := []int{}
		for i := range nodes {
			if i != victim {
				order = append(order, i)
			}
		}
		order = append(order, victim)
		if single && c.Bool(0.7) {
			// nobody but the producer holds the chunks yet: the nodes fetch in a seeded order
			perm := c.Perm(len(order))
			shuffled := make([]int, len(order))
			for a, b := range perm {
				shuffled[a] = order[b]
			}
			order = shuffled
		}
		for _, i := range order {
			n := nodes[i]
			if err := n.Node.Verify(ctx, dsmr.Block{}, blk); err != nil {
				fail("harness", "node %d Verify: %v", i, err)
				return
			}
			n.remember(blk)
			if i == victim && diskFaultAt > 0 {
				n.DB.failIn.Store(int64(diskFaultAt))
			}
			done := make(chan struct{})
			var ex dsmr.ExecutedBlock[dsmrtest.Tx]
			var aerr error
			go func() {
				defer close(done)
				ex, aerr = n.Node.Accept(ctx, blk)
			}()
			select {
			case <-done:
			case <-fp.stuck:
				fp.mu.Lock()
				lg := append([]string{}, fp.log...)
				fp.mu.Unlock()
				if len(lg) > 24 {
					lg = append(lg[:12:12], append([]string{"..."}, lg[len(lg)-6:]...)...)
				}
				fail("accept-does-not-return", "node %d: Accept keeps requesting chunks although its peers have served %d honest answers after the last faulty one; answers=%v", i, honestAnswersBound, lg)
				return
			case <-time.After(10 * time.Minute):
				fp.mu.Lock()
				lg := append([]string{}, fp.log...)
				fp.mu.Unlock()
				fail("accept-does-not-return", "node %d: Accept did not return within 10 simulated minutes although its peers answer honestly after %d faulty answers; answers=%v", i, nFaulty, lg)
				return
			}
			who := "a node that holds every chunk"
			if i == victim {
				who = fmt.Sprintf("the node that had to fetch %d of %d chunks", remotes, len(blk.ChunkCerts))
			}
			fp.mu.Lock()
			lg := append([]string{}, fp.log...)
			fp.mu.Unlock()
			if i == victim {
				n.DB.failIn.Store(0)
				if n.DB.fired.Load() > 0 {
					s.FaultFired("victim_chunk_write_error")
				}
			}
			if aerr != nil && i == victim && n.DB.fired.Load() > 0 && errors.Is(aerr, errInjectedDisk) {
				// the write that failed was not part of a fetch that can be retried (e.g. saving the accepted
				// chunks): Accept may report the disk error; nothing further to judge in this run
				s.Probe("accept_reports_injected_disk_error")
				return
			}
			if aerr != nil {
				cls := "accept-fails"
				if i == victim && remotes > 0 {
					cls = "accept-fails-after-remote-fetch"
				}
				fail(cls, "Accept on %s failed: %v; peers' answers=%v", who, aerr, lg)
				return
			}
			if len(ex.Chunks) != len(blk.ChunkCerts) {
				cls := "executed-chunks-differ"
				if i == victim && remotes > 0 {
					cls = "executed-chunks-differ-after-remote-fetch"
				}
				fail(cls, "Accept on %s returned %d chunks for a block referencing %d certificates; peers' answers=%v", who, len(ex.Chunks), len(blk.ChunkCerts), lg)
				return
			}
			for k, cert := range blk.ChunkCerts {
				got := ex.Chunks[k]
				want, err := dsmr.ParseChunk[dsmrtest.Tx](ref[cert.ChunkID])
				if err != nil {
					fail("harness", "%v", err)
					return
				}
				gb, wb := fmt.Sprintf("%+v", got.UnsignedChunk), fmt.Sprintf("%+v", want.UnsignedChunk)
				if gb != wb || !bytes.Equal(got.Signature[:], want.Signature[:]) {
					fail("executed-chunks-differ", "Accept on %s: chunk #%d of the executed block is not the chunk certificate #%d references (got producer %s expiry %d with %d txs); peers' answers=%v", who, k, k, got.Producer, got.Expiry, len(got.Txs), lg)
					return
				}
			}
		}
	})
	fp.mu.Lock()
	for _, b := range fp.log {
		if b != "honest" {
			s.FaultFired("chunk_response_" + b)
		}
	}
	fp.mu.Unlock()
	r.Sample(sample)
	if nontrivial {
		r.Nontrivial()
	}
	if v := s.Violation(); v != nil {
		return v
	}
	if viol != nil {
		return viol
	}
	if s.Hung && !s.StepLimit {
		return &simk.Violation{Class: "C35/hang", Detail: "scenario never finished: " + s.HangInfo}
	}
	return nil
}

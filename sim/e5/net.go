package e5

import (
	"context"
	"errors"
	"fmt"
	"sync"
	"sync/atomic"
	"testing"
	"time"

	"github.com/ava-labs/avalanchego/database"
	"github.com/ava-labs/avalanchego/database/memdb"
	"github.com/ava-labs/avalanchego/ids"
	"github.com/ava-labs/avalanchego/network/p2p"
	"github.com/ava-labs/avalanchego/network/p2p/acp118"
	"github.com/ava-labs/avalanchego/network/p2p/p2ptest"
	"github.com/ava-labs/avalanchego/snow/engine/common"
	"github.com/ava-labs/avalanchego/snow/validators"
	"github.com/ava-labs/avalanchego/snow/validators/validatorstest"
	"github.com/ava-labs/avalanchego/trace"
	"github.com/ava-labs/avalanchego/utils/crypto/bls"
	"github.com/ava-labs/avalanchego/utils/crypto/bls/signer/localsigner"
	"github.com/ava-labs/avalanchego/utils/logging"
	"github.com/ava-labs/avalanchego/vms/platformvm/warp"
	"google.golang.org/protobuf/proto"

	pb "github.com/ava-labs/hypersdk/proto/pb/dsmr"
	"github.com/ava-labs/hypersdk/x/dsmr"
	"github.com/ava-labs/hypersdk/x/dsmr/dsmrtest"
)

const networkID = uint32(123)

var chainID = ids.Empty

type dRules struct {
	window int64
	weight *atomic.Uint64 // per-producer pending weight limit; a scenario may lower it during the run
}

func (r dRules) GetValidityWindow() int64                     { return r.window }
func (r dRules) GetMaxAccumulatedProducerChunkWeight() uint64 { return r.weight.Load() }

type dRuleFactory struct{ r dRules }

func (f dRuleFactory) GetRules(int64) dsmr.Rules { return f.r }

type dChainState struct {
	validatorstest.State
	vals     []dsmr.Validator
	num, den uint64
}

func newChainState(vals []dsmr.Validator, num, den uint64) *dChainState {
	cs := &dChainState{vals: vals, num: num, den: den}
	cs.GetSubnetIDF = func(context.Context, ids.ID) (ids.ID, error) { return ids.Empty, nil }
	cs.GetValidatorSetF = func(context.Context, uint64, ids.ID) (map[ids.NodeID]*validators.GetValidatorOutput, error) {
		out := map[ids.NodeID]*validators.GetValidatorOutput{}
		for _, v := range cs.vals {
			out[v.NodeID] = &validators.GetValidatorOutput{NodeID: v.NodeID, PublicKey: v.PublicKey, Weight: v.Weight}
		}
		return out, nil
	}
	return cs
}

func (*dChainState) GetNetworkID() uint32   { return networkID }
func (*dChainState) GetSubnetID() ids.ID    { return ids.Empty }
func (*dChainState) GetChainID() ids.ID     { return chainID }
func (c *dChainState) GetQuorumNum() uint64 { return c.num }
func (c *dChainState) GetQuorumDen() uint64 { return c.den }
func (c *dChainState) GetCanonicalValidatorSet(ctx context.Context) (warp.CanonicalValidatorSet, error) {
	return warp.GetCanonicalValidatorSetFromSubnetID(ctx, c, 0, ids.Empty)
}

func (c *dChainState) IsNodeValidator(_ context.Context, nodeID ids.NodeID, _ uint64) (bool, error) {
	for _, v := range c.vals {
		if v.NodeID == nodeID {
			return true, nil
		}
	}
	return false, nil
}

// faultHandler wraps a peer's GetChunk handler; the behaviour of the k-th request served by any
// wrapped handler of one network comes from a list drawn before the run.
type faultPlan struct {
	mu        sync.Mutex
	behaviour []int
	k         int
	log       []string
	other     []byte // bytes of some other valid chunk (for "wrong chunk" answers)
	// stuck is closed when the requester keeps asking although it has received far more honest answers
	// than any retry strategy needs (a busy retry loop never lets simulated time pass, so a time-out
	// cannot catch it); from then on requests are never answered, which parks the requester
	stuck     chan struct{}
	stuckOnce sync.Once
	refusals  int // honest "I do not hold that chunk" answers
}

// honestAnswersBound: honest answers after the last planned fault before the requester counts as stuck.
const honestAnswersBound = 64

const (
	fHonest = iota
	fError
	fGarbage
	fWrongChunk
	fTruncated
	fSlow    // the right chunk, 2.4 simulated seconds late
	fSlowish // the right chunk after 1 simulated second
	nFaults
)

var fNames = []string{"honest", "error", "garbage", "wrong-chunk", "truncated", "slow", "slowish"}

type faultHandler struct {
	inner p2p.Handler
	plan  *faultPlan
	self  bool // the requester's own handler is never faulted (it simply does not have the chunk)
	// honestOnly: answers are never altered (this requester is not the fault plan's target)
	honestOnly bool
}

func (*faultHandler) AppGossip(context.Context, ids.NodeID, []byte) {}

func (f *faultHandler) AppRequest(ctx context.Context, from ids.NodeID, deadline time.Time, req []byte) ([]byte, *common.AppError) {
	out, appErr := f.inner.AppRequest(ctx, from, deadline, req)
	if f.self {
		return out, appErr
	}
	if appErr != nil {
		// the peer does not hold the chunk: an honest refusal. It still counts against the bound on how
		// long a requester may go on asking (a busy retry loop never lets simulated time pass)
		f.plan.mu.Lock()
		f.plan.refusals++
		over := f.plan.stuck != nil && f.plan.refusals > 40*honestAnswersBound
		f.plan.mu.Unlock()
		if over {
			f.plan.stuckOnce.Do(func() { close(f.plan.stuck) })
			select {}
		}
		return out, appErr
	}
	if f.honestOnly {
		return out, appErr
	}
	f.plan.mu.Lock()
	b := fHonest
	if f.plan.k < len(f.plan.behaviour) {
		b = f.plan.behaviour[f.plan.k]
	}
	f.plan.k++
	over := f.plan.stuck != nil && f.plan.k > len(f.plan.behaviour)+honestAnswersBound
	if !over {
		f.plan.log = append(f.plan.log, fNames[b])
	}
	other := f.plan.other
	f.plan.mu.Unlock()
	if over {
		f.plan.stuckOnce.Do(func() { close(f.plan.stuck) })
		select {} // never answered
	}
	wrap := func(chunkBytes []byte) []byte {
		o, err := proto.Marshal(&pb.GetChunkResponse{Chunk: chunkBytes})
		if err != nil {
			return nil
		}
		return o
	}
	switch b {
	case fSlow:
		time.Sleep(2400 * time.Millisecond)
	case fSlowish:
		time.Sleep(time.Second)
	case fError:
		return nil, &common.AppError{Code: 77, Message: "injected peer error"}
	case fGarbage:
		if f.plan.k%2 == 0 {
			return []byte("garbage"), nil // not even a response message
		}
		return wrap([]byte("garbage")), nil // a response carrying bytes that are no chunk
	case fWrongChunk:
		// a well-formed response carrying another valid, correctly signed chunk
		if other != nil {
			return wrap(other), nil
		}
	case fTruncated:
		resp := pb.GetChunkResponse{}
		if err := proto.Unmarshal(out, &resp); err == nil {
			return wrap(resp.Chunk[:len(resp.Chunk)/2]), nil
		}
	}
	return out, nil
}

// flakyDB fails one chosen Put with an I/O error (a transient local disk fault): failIn counts down
// on every Put while armed (> 0); the Put that takes it to zero fails.
type flakyDB struct {
	database.Database
	failIn atomic.Int64
	fired  atomic.Int64
}

var errInjectedDisk = errors.New("injected disk write error")

func (f *flakyDB) Put(k, v []byte) error {
	if f.failIn.Load() > 0 && f.failIn.Add(-1) == 0 {
		f.fired.Add(1)
		return errInjectedDisk
	}
	return f.Database.Put(k, v)
}

type deafHandler struct{}

func (deafHandler) AppGossip(context.Context, ids.NodeID, []byte) {}
func (deafHandler) AppRequest(context.Context, ids.NodeID, time.Time, []byte) ([]byte, *common.AppError) {
	return nil, common.ErrTimeout
}

type dNode struct {
	DB      *flakyDB
	ID      ids.NodeID
	Storage *dsmr.ChunkStorage[dsmrtest.Tx]
	Node    *dsmr.Node[dsmrtest.Tx]
	// SigVerifier is the node's real handler logic for chunk signature requests (what a producer's
	// request reaches); Signer/PK are the node's keys (a faulty producer signs chunks on its own)
	SigVerifier dsmr.ChunkSignatureRequestVerifier[dsmrtest.Tx]
	Signer      warp.Signer
	PK          *bls.PublicKey
	mu          sync.Mutex
	blocks      map[ids.ID]dsmr.Block // accepted and verified blocks this node knows (its chain index)
}

func (n *dNode) getBlock(_ context.Context, id ids.ID) (dsmr.Block, error) {
	n.mu.Lock()
	defer n.mu.Unlock()
	b, ok := n.blocks[id]
	if !ok {
		return dsmr.Block{}, database.ErrNotFound
	}
	return b, nil
}

func (n *dNode) remember(b dsmr.Block) {
	n.mu.Lock()
	n.blocks[b.GetID()] = b
	n.mu.Unlock()
}

type netCfg struct {
	N           int
	Window      int64
	QuorumNum   uint64
	QuorumDen   uint64
	NoSigFrom   map[int]bool // validators that are unreachable for signature requests (they never see the chunk)
	Plan        *faultPlan   // faults on GetChunk answers
	Genesis     dsmr.Block
	PlanForNode int            // only this node's chunk requests are faulted (-1: none)
	Weight      *atomic.Uint64 // nil: no effective per-producer limit
}

func fixedKey(i int) (*localsigner.LocalSigner, error) {
	sk := make([]byte, 32)
	for j := range sk {
		sk[j] = byte(7*i + j + 1)
	}
	sk[0] &= 0x3f // stay below the group order
	return localsigner.FromBytes(sk)
}

// newNet assembles cfg.N complete DSMR nodes that are each other's peers.
func newNet(ctx context.Context, t *testing.T, cfg netCfg) ([]*dNode, error) {
	vals := make([]dsmr.Validator, cfg.N)
	sks := make([]*localsigner.LocalSigner, cfg.N)
	for i := range vals {
		sk, err := fixedKey(i)
		if err != nil {
			return nil, fmt.Errorf("key %d: %w", i, err)
		}
		sks[i] = sk
		vals[i] = dsmr.Validator{NodeID: ids.BuildTestNodeID([]byte{byte(i + 1)}), Weight: 1, PublicKey: sk.PublicKey()}
	}
	if cfg.Weight == nil {
		cfg.Weight = &atomic.Uint64{}
		cfg.Weight.Store(1 << 40)
	}
	rf := dRuleFactory{dRules{window: cfg.Window, weight: cfg.Weight}}
	type parts struct {
		storage *dsmr.ChunkStorage[dsmrtest.Tx]
		sigv    dsmr.ChunkSignatureRequestVerifier[dsmrtest.Tx]
		get     p2p.Handler
		sig     p2p.Handler
		gossip  p2p.Handler
	}
	ps := make([]parts, cfg.N)
	dbs := make([]*flakyDB, cfg.N)
	for i := range ps {
		cs := newChainState(vals, cfg.QuorumNum, cfg.QuorumDen)
		verifier := dsmr.NewChunkVerifier[dsmrtest.Tx](cs, rf)
		fdb := &flakyDB{Database: memdb.New()}
		dbs[i] = fdb
		st, err := dsmr.NewChunkStorage[dsmrtest.Tx](verifier, fdb, rf)
		if err != nil {
			return nil, err
		}
		sigv := dsmr.VerifNewChunkSignatureRequestVerifier[dsmrtest.Tx](verifier, st)
		ps[i] = parts{
			storage: st,
			sigv:    sigv,
			get:     dsmr.VerifNewGetChunkHandler[dsmrtest.Tx](st),
			sig:     acp118.NewHandler(sigv, warp.NewSigner(sks[i], networkID, chainID)),
			gossip:  dsmr.VerifNewChunkCertificateGossipHandler[dsmrtest.Tx](st),
		}
	}
	nodes := make([]*dNode, cfg.N)
	for i := range nodes {
		dn := &dNode{DB: dbs[i], ID: vals[i].NodeID, Storage: ps[i].storage, SigVerifier: ps[i].sigv, Signer: warp.NewSigner(sks[i], networkID, chainID), PK: vals[i].PublicKey, blocks: map[ids.ID]dsmr.Block{cfg.Genesis.GetID(): cfg.Genesis}}
		getPeers, sigPeers, gossipPeers := map[ids.NodeID]p2p.Handler{}, map[ids.NodeID]p2p.Handler{}, map[ids.NodeID]p2p.Handler{}
		for j := range nodes {
			if i == j {
				continue
			}
			if cfg.Plan != nil {
				// every requester's peers count refusals (livelock detection); only the chosen node's peers
				// follow the fault plan
				getPeers[vals[j].NodeID] = &faultHandler{inner: ps[j].get, plan: cfg.Plan, honestOnly: cfg.PlanForNode != i}
			} else {
				getPeers[vals[j].NodeID] = ps[j].get
			}
			if !cfg.NoSigFrom[j] {
				sigPeers[vals[j].NodeID] = ps[j].sig
				gossipPeers[vals[j].NodeID] = ps[j].gossip
			} else {
				// connected, but every signature request times out and gossip is dropped
				sigPeers[vals[j].NodeID] = deafHandler{}
				gossipPeers[vals[j].NodeID] = deafHandler{}
			}
		}
		cs := newChainState(vals, cfg.QuorumNum, cfg.QuorumDen)
		win, err := dsmr.VerifNewTimeValidityWindow(ctx, logging.NoLog{}, trace.Noop, dn.getBlock, cfg.Genesis, func(int64) int64 { return cfg.Window })
		if err != nil {
			return nil, err
		}
		node, err := dsmr.New[dsmrtest.Tx](
			logging.NoLog{}, vals[i].NodeID, cs, vals[i].PublicKey, warp.NewSigner(sks[i], networkID, chainID),
			ps[i].storage, ps[i].get, ps[i].sig, ps[i].gossip,
			p2ptest.NewClientWithPeers(t, ctx, vals[i].NodeID, ps[i].get, getPeers),
			p2ptest.NewClientWithPeers(t, ctx, vals[i].NodeID, ps[i].sig, sigPeers),
			p2ptest.NewClientWithPeers(t, ctx, vals[i].NodeID, ps[i].gossip, gossipPeers),
			cfg.Genesis, win, rf,
		)
		if err != nil {
			return nil, err
		}
		dn.Node = node
		nodes[i] = dn
	}
	return nodes, nil
}

package e4

import (
	"context"
	"errors"
	"fmt"
	"math/big"

	"github.com/ava-labs/avalanchego/database"
	"github.com/ava-labs/avalanchego/database/memdb"
	"github.com/ava-labs/avalanchego/ids"

	"github.com/ava-labs/hypersdk/chain"
	"github.com/ava-labs/hypersdk/codec"
	"github.com/ava-labs/hypersdk/state"
	"github.com/ava-labs/hypersdk/verifsim/e2"
	"github.com/ava-labs/hypersdk/verifsim/simk"
	"github.com/ava-labs/hypersdk/x/dsmr"
	"github.com/ava-labs/hypersdk/x/fdsmr"

	ichain "github.com/ava-labs/hypersdk/internal/chain"
)

func init() {
	register(&simk.Prop{
		ID:    "C38",
		Level: "exploration",
		Rule: "seeded histories (<=12 ops) over 3 sponsors and <=6 transactions: chunk builds through the real fee-bonding node (fdsmr.Node + internal/chain.Bonder on a database) with tx subsets that re-submit earlier transactions within and across chunks, block accepts that include some chunks and expire others in any order, injected failures of the inner chunk build (20% of the builds), maximum balances and fee rates from small sets incl. 0 and overflowing rates; after every operation each sponsor's pending bond, measured through the public Bond/Unbond API with zero-fee probes, is compared with the sum of the fees of its bonded, unsettled transactions, must not exceed its maximum, and is 0 once everything is settled; " +
			"non-trivial = a transaction is submitted twice or a bond is refused; distinct = distinct history hashes",
		Exec:        c38,
		Real:        []string{"x/fdsmr.Node (BuildChunk, Accept)", "internal/chain.Bonder (Bond, Unbond, SetMaxBalance)", "internal/eheap"},
		Stub:        []string{"inner DSMR node (records built chunks, returns the chosen chunks on accept)", "state (map-backed state.Mutable holding the max balances)", "database (avalanchego memdb)"},
		Assumptions: []string{"maximum balances are never lowered below an already bonded amount"},
	})
}

type mapState map[string][]byte

func (m mapState) GetValue(_ context.Context, k []byte) ([]byte, error) {
	v, ok := m[string(k)]
	if !ok {
		return nil, database.ErrNotFound
	}
	return v, nil
}
func (m mapState) Insert(_ context.Context, k, v []byte) error { m[string(k)] = v; return nil }
func (m mapState) Remove(_ context.Context, k []byte) error    { delete(m, string(k)); return nil }

type stubDSMR struct {
	built    [][]*chain.Transaction
	next     dsmr.ExecutedBlock[*chain.Transaction]
	failNext bool // injected fault: the inner chunk build fails (rate limit, signing, storage error)
	// injected fault: the inner accept fails once (a chunk cannot be fetched or stored); the engine
	// delivers the same block again
	failAccept bool
}

var errInnerBuild = errors.New("injected inner chunk build failure")

func (s *stubDSMR) BuildChunk(_ context.Context, txs []*chain.Transaction, _ int64, _ codec.Address) error {
	if s.failNext {
		s.failNext = false
		return errInnerBuild
	}
	s.built = append(s.built, append([]*chain.Transaction{}, txs...))
	return nil
}

func (s *stubDSMR) Accept(context.Context, dsmr.Block) (dsmr.ExecutedBlock[*chain.Transaction], error) {
	if s.failAccept {
		s.failAccept = false
		return dsmr.ExecutedBlock[*chain.Transaction]{}, errInnerAccept
	}
	return s.next, nil
}

var errInnerAccept = errors.New("injected inner accept failure")

type c38Op struct {
	Kind  string `json:"op"` // build | accept
	Txs   []int  `json:"txs,omitempty"`
	Rate  uint64 `json:"fee_rate,omitempty"`
	Fail  bool   `json:"inner_build_fails,omitempty"`
	TS    int64  `json:"timestamp,omitempty"`
	Chunk []int  `json:"accepted_txs,omitempty"`
}

func c38(r *simk.Run) *simk.Violation {
	c := r.C
	r.NewSim() // no scheduler needed; used for fault counters
	ctx := context.Background()
	sp := e2.Sponsors()[:3]
	nTx := 1 + c.Intn(6)
	txs := make([]*chain.Transaction, nTx)
	sponsorOf := make([]int, nTx)
	expiryOf := make([]int64, nTx)
	for i := range txs {
		sponsorOf[i] = c.Intn(3)
		expiryOf[i] = int64(1000 * (1 + c.Intn(5)))
		k := e2.SimKey('a', 1)
		sa := &e2.SimAction{Start: -1, End: -1, Nonce: uint64(i + 1), Ops: []e2.SimOp{{Kind: "get", Key: k}}, Decl: []e2.SimDecl{{Key: k, Perm: state.Read}}}
		td := chain.NewTxData(chain.Base{Timestamp: expiryOf[i], ChainID: ids.Empty.Prefix(5), MaxFee: 1}, []chain.Action{sa})
		tx, err := td.Sign(sp[sponsorOf[i]])
		if err != nil {
			return &simk.Violation{Class: "harness", Detail: err.Error()}
		}
		txs[i] = tx
	}
	db := memdb.New()
	bonder := ichain.NewBonder(db)
	st := mapState{}
	maxBal := make([]uint64, 3)
	for i := range maxBal {
		maxBal[i] = []uint64{0, 1, 500, 2000, 100000, ^uint64(0)}[c.Intn(6)]
		if err := bonder.SetMaxBalance(ctx, st, sp[i].Address(), maxBal[i]); err != nil {
			return &simk.Violation{Class: "harness", Detail: err.Error()}
		}
	}
	inner := &stubDSMR{}
	node := fdsmr.New[*stubDSMR, *chain.Transaction](inner, bonder)

	// reference
	bonded := map[int]uint64{} // tx index -> fee, for bonded and unsettled txs
	sum := func(s int) *big.Int {
		t := new(big.Int)
		for i, f := range bonded {
			if sponsorOf[i] == s {
				t.Add(t, new(big.Int).SetUint64(f))
			}
		}
		return t
	}
	// probe tx per sponsor for measuring the pending bond through the API
	probes := make([]*chain.Transaction, 3)
	for i := range probes {
		sa := &e2.SimAction{Start: -1, End: -1, Nonce: uint64(1000 + i)}
		td := chain.NewTxData(chain.Base{Timestamp: 1000, ChainID: ids.Empty.Prefix(5), MaxFee: 1}, []chain.Action{sa})
		p, err := td.Sign(sp[i])
		if err != nil {
			return &simk.Violation{Class: "harness", Detail: err.Error()}
		}
		probes[i] = p
	}
	measure := func(s int) (uint64, error) {
		// pending P is the smallest max' for which a zero-fee bond succeeds (P + 0 <= max')
		lo, hi := uint64(0), ^uint64(0)
		ps := mapState{}
		for lo < hi {
			mid := lo + (hi-lo)/2
			if err := bonder.SetMaxBalance(ctx, ps, sp[s].Address(), mid); err != nil {
				return 0, err
			}
			ok, err := bonder.Bond(ctx, ps, probes[s], 0)
			if err != nil {
				return 0, err
			}
			if ok {
				if err := bonder.Unbond(probes[s]); err != nil {
					return 0, err
				}
				hi = mid
			} else {
				lo = mid + 1
			}
		}
		return lo, nil
	}
	var hist []c38Op
	interesting := false
	check := func(when string) *simk.Violation {
		for s := 0; s < 3; s++ {
			got, err := measure(s)
			if err != nil {
				return &simk.Violation{Class: "C38/bond-api-error", Detail: fmt.Sprintf("%s: %v", when, err)}
			}
			want := sum(s)
			if want.Cmp(new(big.Int).SetUint64(got)) != 0 {
				cls := "C38/pending-bond-differs"
				if want.Sign() == 0 {
					cls = "C38/bond-not-released"
				}
				return &simk.Violation{Class: cls, Detail: fmt.Sprintf("%s: sponsor %d pending bond %d, sum of fees of its bonded unsettled transactions %s (max %d); history=%s", when, s, got, want, maxBal[s], jsh(hist))}
			}
			if got > maxBal[s] {
				return &simk.Violation{Class: "C38/pending-exceeds-max", Detail: fmt.Sprintf("%s: sponsor %d pending bond %d exceeds its maximum %d; history=%s", when, s, got, maxBal[s], jsh(hist))}
			}
		}
		return nil
	}
	nOps := 1 + c.Intn(12)
	lastTS := int64(0)
	for o := 0; o < nOps; o++ {
		if c.Bool(0.6) {
			n := 1 + c.Intn(4)
			op := c38Op{Kind: "build", Rate: []uint64{1, 0, 2, 7, 1 << 60, 1 << 56, 1 << 55}[c.Intn(7)]}
			for k := 0; k < n; k++ {
				i := c.Intn(nTx)
				if r.Avoid {
					// stay clear of re-submission of a still bonded transaction
					if _, dup := bonded[i]; dup {
						continue
					}
					already := false
					for _, j := range op.Txs {
						already = already || j == i
					}
					if already {
						continue
					}
				}
				op.Txs = append(op.Txs, i)
			}
			if len(op.Txs) == 0 {
				continue
			}
			op.Fail = c.Bool(0.2)
			hist = append(hist, op)
			var list []*chain.Transaction
			for _, i := range op.Txs {
				list = append(list, txs[i])
			}
			inner.failNext = op.Fail
			if err := node.BuildChunk(ctx, st, list, 10_000, codec.EmptyAddress, op.Rate); err != nil {
				if !op.Fail || !errors.Is(err, errInnerBuild) {
					return &simk.Violation{Class: "C38/build-error", Detail: fmt.Sprintf("BuildChunk failed: %v", err)}
				}
				r.S.FaultFired("inner-build-error")
				interesting = true
			}
			inner.failNext = false
			// (a failed inner build leaves the bonds in place: the transactions stay bonded until they expire)
			for _, i := range op.Txs {
				if _, dup := bonded[i]; dup {
					interesting = true
					continue // a re-submitted, still bonded transaction adds nothing
				}
				fee := new(big.Int).Mul(new(big.Int).SetUint64(uint64(txs[i].Size())), new(big.Int).SetUint64(op.Rate))
				tot := new(big.Int).Add(sum(sponsorOf[i]), fee)
				if !fee.IsUint64() || !tot.IsUint64() || tot.Uint64() > maxBal[sponsorOf[i]] {
					interesting = true
					continue // refused
				}
				bonded[i] = fee.Uint64()
			}
		} else {
			op := c38Op{Kind: "accept", TS: lastTS + int64(c.Intn(3))*1000}
			lastTS = op.TS
			var chunk []*chain.Transaction
			for i := range txs {
				if c.Bool(0.3) {
					op.Chunk = append(op.Chunk, i)
					chunk = append(chunk, txs[i])
				}
			}
			hist = append(hist, op)
			inner.next = dsmr.ExecutedBlock[*chain.Transaction]{BlockHeader: dsmr.BlockHeader{Timestamp: op.TS}}
			if len(chunk) > 0 {
				wc, err := mkTxChunk(chunk)
				if err != nil {
					return &simk.Violation{Class: "harness", Detail: err.Error()}
				}
				inner.next.Chunks = []dsmr.Chunk[*chain.Transaction]{wc}
			}
			if c.Bool(0.15) {
				// the accept fails inside the inner node and is retried: nothing may be settled twice or lost
				inner.failAccept = true
				if _, err := node.Accept(ctx, dsmr.Block{BlockHeader: dsmr.BlockHeader{Timestamp: op.TS}}); !errors.Is(err, errInnerAccept) {
					return &simk.Violation{Class: "C38/accept-error", Detail: fmt.Sprintf("Accept with a failing inner accept returned %v; history=%s", err, jsh(hist))}
				}
				r.S.FaultFired("inner-accept-error")
				hist = append(hist, c38Op{Kind: "accept-failed-and-retried", TS: op.TS})
				if v := check(fmt.Sprintf("after the failed accept of op %d", o)); v != nil {
					return v
				}
			}
			if _, err := node.Accept(ctx, dsmr.Block{BlockHeader: dsmr.BlockHeader{Timestamp: op.TS}}); err != nil {
				return &simk.Violation{Class: "C38/accept-error", Detail: fmt.Sprintf("Accept failed: %v; history=%s", err, jsh(hist))}
			}
			for i := range txs {
				if _, ok := bonded[i]; ok && expiryOf[i] < op.TS {
					delete(bonded, i)
				}
			}
			for _, i := range op.Chunk {
				delete(bonded, i)
			}
		}
		if v := check(fmt.Sprintf("after op %d", o)); v != nil {
			return v
		}
	}
	// settle everything: a block far in the future expires whatever is left
	inner.next = dsmr.ExecutedBlock[*chain.Transaction]{BlockHeader: dsmr.BlockHeader{Timestamp: 1 << 40}}
	hist = append(hist, c38Op{Kind: "accept", TS: 1 << 40})
	if _, err := node.Accept(ctx, dsmr.Block{BlockHeader: dsmr.BlockHeader{Timestamp: 1 << 40}}); err != nil {
		return &simk.Violation{Class: "C38/accept-error", Detail: fmt.Sprintf("final Accept failed: %v", err)}
	}
	bonded = map[int]uint64{}
	if v := check("after everything was settled"); v != nil {
		return v
	}
	r.Sample(map[string]any{"sponsor_of_tx": sponsorOf, "expiry_of_tx": expiryOf, "max_balance": maxBal, "history": hist})
	r.Fingerprint("%v|%v|%v|%s", sponsorOf, expiryOf, maxBal, jsh(hist))
	if interesting {
		r.Nontrivial()
	}
	return nil
}

func jsh(h []c38Op) string { return fmt.Sprintf("%+v", h) }

func mkTxChunk(txs []*chain.Transaction) (dsmr.Chunk[*chain.Transaction], error) {
	return dsmr.Chunk[*chain.Transaction]{UnsignedChunk: dsmr.UnsignedChunk[*chain.Transaction]{Expiry: 10_000, Txs: txs}}, nil
}

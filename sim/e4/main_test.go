package e4

import (
	"testing"

	"github.com/ava-labs/hypersdk/verifsim/simk"
)

var props = map[string]*simk.Prop{}

func register(p *simk.Prop) { props[p.ID] = p }

func TestEngine(t *testing.T) { simk.Main(t, props) }

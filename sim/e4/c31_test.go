package e4

import (
	"bytes"
	"context"
	"fmt"
	"sync"
	"sync/atomic"

	"github.com/ava-labs/avalanchego/ids"
	"github.com/cockroachdb/pebble/vfs"

	"github.com/ava-labs/hypersdk/api/indexer"
	"github.com/ava-labs/hypersdk/chain"
	"github.com/ava-labs/hypersdk/fees"
	"github.com/ava-labs/hypersdk/state"
	"github.com/ava-labs/hypersdk/verifsim/e2"
	"github.com/ava-labs/hypersdk/verifsim/simk"
)

func init() {
	register(&simk.Prop{
		ID:    "C31",
		Level: "fault_enumeration",
		Rule: "seeded accepted-block notification histories (<=12 deliveries: consecutive heights, height gaps as after a second state sync, re-delivery of the last 1..3 blocks as after a node restart, indexer restarts) with 0..2 transactions per block and block windows 1..4, on the real Indexer over real pebble on an in-memory file system; for every history the durable writes W are counted and the history is re-run crashing before write k for every k (exhaustive for that history), restarting and re-delivering; at every quiescent point every query (by height, by id, latest, by transaction) is compared with a window model, before and after an extra restart; " +
			"non-trivial = the history has a gap, a re-delivery or a restart; distinct = distinct (history, crash point) hashes",
		Exec:        c31,
		Real:        []string{"api/indexer.Indexer (Notify, initBlocks, lookups)", "internal/pebble wrapper + cockroachdb/pebble on vfs.MemFS", "chain.ExecutedBlock encoding"},
		Stub:        []string{"file system (pebble vfs.NewMem via the verif FS hook; all writes of the wrapper are pebble.Sync so a crash keeps exactly the completed writes)", "block producer (synthetic executed blocks)"},
		Assumptions: []string{"answers are compared at quiescent points (after a delivery whose height is the highest so far); during a re-delivery of older blocks the latest pointer is allowed to lag"},
	})
}

type c31Deliver struct {
	Height uint64 `json:"h"`
	Txs    int    `json:"txs"`
}

type c31Op struct {
	Kind    string     `json:"op"` // notify | restart
	Deliver c31Deliver `json:"d,omitempty"`
}

func c31Block(h uint64, nTx int) *chain.ExecutedBlock {
	sp := e2.Sponsors()
	var txs []*chain.Transaction
	var results []*chain.Result
	for i := 0; i < nTx; i++ {
		k := e2.SimKey('a', 1)
		sa := &e2.SimAction{Start: -1, End: -1, Nonce: h*10 + uint64(i), Ops: []e2.SimOp{{Kind: "get", Key: k}}, Decl: []e2.SimDecl{{Key: k, Perm: state.Read}}}
		td := chain.NewTxData(chain.Base{Timestamp: int64(1000 * (h + 1)), ChainID: ids.Empty.Prefix(1), MaxFee: 7}, []chain.Action{sa})
		tx, err := td.Sign(sp[i%len(sp)])
		if err != nil {
			panic(err)
		}
		txs = append(txs, tx)
		results = append(results, &chain.Result{Success: i%2 == 0, Error: []byte{}, Outputs: [][]byte{[]byte(fmt.Sprintf("out-%d-%d", h, i))}, Units: fees.Dimensions{1, 2, 3, 4, uint64(i)}, Fee: h + uint64(i)})
	}
	sb, err := chain.NewStatelessBlock(ids.Empty.Prefix(h), int64(100000+h*1000), h, txs, ids.Empty, nil)
	if err != nil {
		panic(err)
	}
	return chain.NewExecutedBlock(sb, results, fees.Dimensions{1, 1, 1, 1, 1}, fees.Dimensions{h, 0, 0, 0, 0})
}

type c31Model struct {
	blocks map[uint64]*chain.ExecutedBlock
	max    uint64
	any    bool
}

var c31FS struct {
	mu sync.Mutex
	fs vfs.FS
	// crash control for the current incarnation
	writes      int
	crashBefore int
	dead        bool
}

func c31Fault(site, _ string) error {
	c31FS.mu.Lock()
	defer c31FS.mu.Unlock()
	if c31FS.dead {
		return errCrashed
	}
	if c31FS.writes == c31FS.crashBefore {
		c31FS.dead = true
		return errCrashed
	}
	c31FS.writes++
	return nil
}

func c31Check(idx *indexer.Indexer, m *c31Model, window uint64, known map[uint64]*chain.ExecutedBlock, when string) *simk.Violation {
	for h, blk := range known {
		want := false
		var wb *chain.ExecutedBlock
		if b, ok := m.blocks[h]; ok && m.any && h+window > m.max {
			want, wb = true, b
		}
		got, err := idx.GetBlockByHeight(h)
		if want != (err == nil) {
			cls := "C31/window-block-missing"
			if !want {
				cls = "C31/stale-block-served"
			}
			return &simk.Violation{Class: cls, Detail: fmt.Sprintf("%s: GetBlockByHeight(%d) found=%v, model says %v (latest %d, window %d)", when, h, err == nil, want, m.max, window)}
		}
		if want && got.Block.GetID() != wb.Block.GetID() {
			return &simk.Violation{Class: "C31/wrong-block", Detail: fmt.Sprintf("%s: height %d returns block %s, want %s", when, h, got.Block.GetID(), wb.Block.GetID())}
		}
		gb, err := idx.GetBlock(blk.Block.GetID())
		if want != (err == nil) || (want && gb.Block.GetHeight() != h) {
			return &simk.Violation{Class: "C31/by-id-differs", Detail: fmt.Sprintf("%s: GetBlock(id of height %d) found=%v, model says %v", when, h, err == nil, want)}
		}
		for i, tx := range blk.Block.Txs {
			found, gtx, ts, res, err := idx.GetTransaction(tx.GetID())
			if err != nil {
				return &simk.Violation{Class: "C31/tx-lookup-error", Detail: fmt.Sprintf("%s: GetTransaction(tx %d of height %d): %v", when, i, h, err)}
			}
			if found != want {
				cls := "C31/window-tx-missing"
				if !want {
					cls = "C31/stale-tx-served"
				}
				return &simk.Violation{Class: cls, Detail: fmt.Sprintf("%s: transaction %d of height %d found=%v, model says %v (latest %d, window %d)", when, i, h, found, want, m.max, window)}
			}
			if found {
				if gtx.GetID() != tx.GetID() || ts != wb.Block.Tmstmp || !bytes.Equal(res.Marshal(), wb.ExecutionResults.Results[i].Marshal()) {
					return &simk.Violation{Class: "C31/wrong-tx-result", Detail: fmt.Sprintf("%s: transaction %d of height %d returned another tx/timestamp/result", when, i, h)}
				}
			}
		}
	}
	latest, err := idx.GetLatestBlock()
	if m.any != (err == nil) || (m.any && latest.Block.GetHeight() != m.max) {
		lh := uint64(0)
		if err == nil {
			lh = latest.Block.GetHeight()
		}
		return &simk.Violation{Class: "C31/latest-differs", Detail: fmt.Sprintf("%s: GetLatestBlock = (height %d, err %v), model says any=%v height %d", when, lh, err, m.any, m.max)}
	}
	return nil
}

// c31Run executes ops[start:] in one process incarnation. Returns (violation, index reached, crashed).
func c31Run(ops []c31Op, window uint64, crashBefore int, m *c31Model, known map[uint64]*chain.ExecutedBlock, start int) (*simk.Violation, int, bool) {
	ctx := context.Background()
	c31FS.mu.Lock()
	c31FS.writes, c31FS.crashBefore, c31FS.dead = 0, crashBefore, false
	c31FS.mu.Unlock()
	idx, err := indexer.NewIndexer("/idx", e2.Parser, window)
	if err != nil {
		if idx != nil {
			_ = idx.Close() // the constructor returns the half-open indexer together with the error
		}
		c31FS.mu.Lock()
		dead := c31FS.dead
		c31FS.mu.Unlock()
		if dead {
			return nil, start, true
		}
		return &simk.Violation{Class: "C31/open-fails", Detail: fmt.Sprintf("NewIndexer failed on a healthy store: %v", err)}, start, false
	}
	defer func() { _ = idx.Close() }()
	quiescent := true
	if v := c31Check(idx, m, window, known, fmt.Sprintf("after (re)start before op %d", start)); v != nil {
		return v, start, false
	}
	for i := start; i < len(ops); i++ {
		op := ops[i]
		switch op.Kind {
		case "notify":
			blk := c31Block(op.Deliver.Height, op.Deliver.Txs)
			known[op.Deliver.Height] = blk
			if err := idx.Notify(ctx, blk); err != nil {
				c31FS.mu.Lock()
				dead := c31FS.dead
				c31FS.mu.Unlock()
				if dead {
					return nil, i, true
				}
				return &simk.Violation{Class: "C31/notify-fails", Detail: fmt.Sprintf("op %d: Notify(height %d) failed: %v", i, op.Deliver.Height, err)}, i, false
			}
			m.blocks[op.Deliver.Height] = blk
			quiescent = !m.any || op.Deliver.Height >= m.max
			if quiescent {
				m.max = op.Deliver.Height
			}
			m.any = true
			// drop what fell out of the window for good
			for h := range m.blocks {
				if h+window <= m.max {
					delete(m.blocks, h)
				}
			}
		case "restart":
			_ = idx.Close()
			c31FS.mu.Lock()
			c31FS.crashBefore = -1
			c31FS.mu.Unlock()
			idx, err = indexer.NewIndexer("/idx", e2.Parser, window)
			if err != nil {
				return &simk.Violation{Class: "C31/open-fails", Detail: fmt.Sprintf("op %d: reopening failed: %v", i, err)}, i, false
			}
		}
		if quiescent {
			if v := c31Check(idx, m, window, known, fmt.Sprintf("after op %d (%s %d)", i, op.Kind, op.Deliver.Height)); v != nil {
				v.Detail += fmt.Sprintf("; history=%v", ops)
				return v, i, false
			}
		}
	}
	// a restart does not change any answer
	if quiescent {
		_ = idx.Close()
		c31FS.mu.Lock()
		c31FS.crashBefore = -1
		c31FS.mu.Unlock()
		idx, err = indexer.NewIndexer("/idx", e2.Parser, window)
		if err != nil {
			return &simk.Violation{Class: "C31/open-fails", Detail: fmt.Sprintf("final reopen failed: %v", err)}, len(ops), false
		}
		if v := c31Check(idx, m, window, known, "after a final restart"); v != nil {
			v.Class += "-after-restart"
			v.Detail += fmt.Sprintf("; history=%v", ops)
			return v, len(ops), false
		}
		// and a second one (the first restart prunes the disk)
		_ = idx.Close()
		idx, err = indexer.NewIndexer("/idx", e2.Parser, window)
		if err != nil {
			return &simk.Violation{Class: "C31/open-fails", Detail: fmt.Sprintf("second reopen failed: %v", err)}, len(ops), false
		}
		if v := c31Check(idx, m, window, known, "after a second restart"); v != nil {
			v.Class += "-after-restart"
			v.Detail += fmt.Sprintf("; history=%v", ops)
			return v, len(ops), false
		}
	}
	return nil, len(ops), false
}

func c31(r *simk.Run) *simk.Violation {
	c := r.C
	s := r.NewSim()
	s.KeepLog = simk.WantLog()
	s.FaultFn = c31Fault
	s.FSFn = func(string) any {
		c31FS.mu.Lock()
		defer c31FS.mu.Unlock()
		return c31FS.fs
	}
	window := uint64(1 + c.Intn(4))
	nOps := 1 + c.Intn(12)
	var ops []c31Op
	next := uint64(c.Intn(3))
	if c.Bool(0.3) {
		next = uint64(5 + c.Intn(20))
	}
	interesting := false
	var delivered []c31Deliver
	for tries := 0; len(ops) < nOps && tries < 300; tries++ {
		switch c.Weighted(8, 1, 2, 2) {
		case 0:
			d := c31Deliver{Height: next, Txs: c.Intn(3)}
			ops = append(ops, c31Op{Kind: "notify", Deliver: d})
			delivered = append(delivered, d)
			next++
		case 1: // gap
			if r.Avoid {
				continue
			}
			next += uint64(1 + c.Intn(6))
			d := c31Deliver{Height: next, Txs: c.Intn(3)}
			ops = append(ops, c31Op{Kind: "notify", Deliver: d})
			delivered = append(delivered, d)
			next++
			interesting = true
		case 2: // re-delivery of the last k blocks, in height order (as after a node restart)
			k := 1 + c.Intn(3)
			if k > len(delivered) {
				continue
			}
			ops = append(ops, c31Op{Kind: "restart"})
			for _, d := range delivered[len(delivered)-k:] {
				ops = append(ops, c31Op{Kind: "notify", Deliver: d})
			}
			interesting = true
		default:
			ops = append(ops, c31Op{Kind: "restart"})
			interesting = true
		}
		if len(ops) > 40 {
			break
		}
	}
	r.Sample(map[string]any{"window": window, "ops": ops})
	r.Fingerprint("%d|%v", window, ops)
	if interesting {
		r.Nontrivial()
	}
	// concurrent phase (a third of the runs, instead of the crash enumeration): clients query while the
	// accepted-block notifications arrive; the seeded scheduler interleaves them at the indexer's lock
	// and unlock points
	concurrent := c.Bool(0.33)
	nConc := 2 + c.Intn(7)
	nReaders := 1 + c.Intn(2)
	type q struct{ kind, back int }
	var queries [][]q
	for i := 0; i < nReaders; i++ {
		var qs []q
		for k := 0; k < 1+c.Intn(6); k++ {
			qs = append(qs, q{kind: c.Weighted(5, 2, 2), back: c.Intn(4)})
		}
		queries = append(queries, qs)
	}
	var viol *simk.Violation
	var violMu sync.Mutex
	s.Run(r.T, func() {
		fresh := func() {
			c31FS.mu.Lock()
			c31FS.fs = vfs.NewMem()
			c31FS.writes, c31FS.crashBefore, c31FS.dead = 0, -1, false
			c31FS.mu.Unlock()
		}
		fresh()
		if concurrent {
			r.Nontrivial()
			idx, err := indexer.NewIndexer("/idx", e2.Parser, window)
			if err != nil {
				viol = &simk.Violation{Class: "C31/harness", Detail: err.Error()}
				return
			}
			defer idx.Close()
			first := uint64(c.Intn(3))
			blocks := make([]*chain.ExecutedBlock, nConc)
			for i := range blocks {
				blocks[i] = c31Block(first+uint64(i), i%3)
			}
			// one block is in place before the clients start, so a latest block always exists
			if err := idx.Notify(context.Background(), blocks[0]); err != nil {
				viol = &simk.Violation{Class: "C31/harness", Detail: err.Error()}
				return
			}
			var started, done atomic.Int64 // index of the newest block whose Notify has started / returned
			fail := func(class, f string, a ...any) {
				violMu.Lock()
				if viol == nil {
					viol = &simk.Violation{Class: "C31/" + class, Detail: fmt.Sprintf(f, a...)}
				}
				violMu.Unlock()
			}
			fin := make(chan struct{}, 1+nReaders)
			s.Go("c31.notifier", 0, func() {
				defer func() { fin <- struct{}{} }()
				for i := 1; i < nConc; i++ {
					started.Store(int64(i))
					if err := idx.Notify(context.Background(), blocks[i]); err != nil {
						fail("harness", "Notify: %v", err)
						return
					}
					done.Store(int64(i))
				}
			})
			for ri := range queries {
				qs := queries[ri]
				s.Go("c31.reader", uint64(ri), func() {
					defer func() { fin <- struct{}{} }()
					for _, qu := range qs {
						a := done.Load()
						switch qu.kind {
						case 0: // the latest block: some block that was the latest during the call
							got, err := idx.GetLatestBlock()
							b := started.Load()
							if err != nil {
								fail("latest-block-missing", "GetLatestBlock failed (%v) although block %d had been delivered before the call (deliveries %d..%d ran during the call, window %d)", err, first+uint64(a), first+uint64(a)+1, first+uint64(b), window)
								return
							}
							if h := got.Block.GetHeight(); h < first+uint64(a) || h > first+uint64(b) {
								fail("latest-block-stale", "GetLatestBlock returned height %d; the latest delivered block was %d before and at most %d after the call", h, first+uint64(a), first+uint64(b))
								return
							}
						default: // a block by height or id: present unless a delivery that ran during the call may have evicted it
							i := int(a) - qu.back
							if i < 0 {
								continue
							}
							var got *chain.ExecutedBlock
							var err error
							if qu.kind == 1 {
								got, err = idx.GetBlockByHeight(first + uint64(i))
							} else {
								got, err = idx.GetBlock(blocks[i].Block.GetID())
							}
							b := started.Load()
							inAtCall := uint64(i)+window > uint64(a)
							mustBeIn := uint64(i)+window > uint64(b)
							if err != nil && inAtCall && mustBeIn {
								fail("window-block-missing", "lookup of block %d failed (%v) although it was within the window for every delivery up to %d (window %d)", first+uint64(i), err, first+uint64(b), window)
								return
							}
							if err == nil && got.Block.GetID() != blocks[i].Block.GetID() {
								fail("wrong-block", "lookup of block %d returned block %d", first+uint64(i), got.Block.GetHeight())
								return
							}
							if err == nil && !inAtCall {
								fail("stale-block-served", "lookup of block %d succeeded although it had left the window (latest delivered %d, window %d) before the call", first+uint64(i), first+uint64(a), window)
								return
							}
						}
					}
				})
			}
			for k := 0; k < 1+nReaders; k++ {
				<-fin
			}
			return
		}
		m := &c31Model{blocks: map[uint64]*chain.ExecutedBlock{}}
		known := map[uint64]*chain.ExecutedBlock{}
		v, _, _ := c31Run(ops, window, -1, m, known, 0)
		if v != nil {
			viol = v
			return
		}
		c31FS.mu.Lock()
		W := c31FS.writes
		c31FS.mu.Unlock()
		if r.Tier != "thorough" && W > 6 {
			W = 6 // quick tier: the first crash points only (thorough enumerates all)
		}
		for k := 0; k < W; k++ {
			fresh()
			mm := &c31Model{blocks: map[uint64]*chain.ExecutedBlock{}}
			kn := map[uint64]*chain.ExecutedBlock{}
			v, at, crashed := c31Run(ops, window, k, mm, kn, 0)
			if v != nil {
				v.Detail = fmt.Sprintf("[crash before write %d] ", k) + v.Detail
				viol = v
				return
			}
			if !crashed {
				continue
			}
			s.FaultFired("crash-before-write")
			r.Fingerprint("crash@%d", k)
			if v, _, _ := c31Run(ops, window, -1, mm, kn, at); v != nil {
				v.Class += "-after-crash"
				v.Detail = fmt.Sprintf("[crashed before write %d during op %d, restarted, block re-delivered] ", k, at) + v.Detail
				viol = v
				return
			}
		}
		s.Probes["crash_points_enumerated"] += W
	})
	if v := s.Violation(); v != nil {
		return v
	}
	if viol != nil {
		return viol
	}
	if s.Hung {
		return &simk.Violation{Class: "C31/hang", Detail: "indexer scenario never finished: " + s.HangInfo}
	}
	return nil
}

// Package e4 is the store engine: on-disk components driven through operation
// histories with crash-point enumeration.
package e4

import (
	"context"
	"errors"
	"sync"

	"github.com/ava-labs/avalanchego/database"
	"github.com/ava-labs/avalanchego/database/memdb"
)

var errCrashed = errors.New("simulated crash: process is dead")
var errInjectedIO = errors.New("injected I/O error")

// Disk is the durable medium: it survives crashes. Every write of the hypersdk
// stores is synchronous (pebble.Sync) and every batch atomic, so the durable
// state after a crash is exactly the prefix of completed write operations.
type Disk struct {
	mu     sync.Mutex
	inner  *memdb.Database
	Writes int // completed durable write operations (Put, Delete, batch.Write)
}

func NewDisk() *Disk { return &Disk{inner: memdb.New()} }

// Open returns a handle for one process incarnation. The handle dies at the crash point.
func (d *Disk) Open() *CrashDB { return &CrashDB{disk: d, crashBefore: -1, ioErrAt: -1} }

// Dump returns the durable content.
func (d *Disk) Dump() map[string][]byte {
	out := map[string][]byte{}
	it := d.inner.NewIterator()
	defer it.Release()
	for it.Next() {
		out[string(it.Key())] = append([]byte{}, it.Value()...)
	}
	return out
}

type CrashDB struct {
	disk        *Disk
	crashBefore int // die right before the n-th write (0-based count of this incarnation's writes); -1 = never
	ioErrAt     int // fail (only) the n-th write with an I/O error; -1 = never
	writes      int
	dead        bool
	Fired       string
}

var _ database.Database = (*CrashDB)(nil)

// CrashBeforeWrite arms the crash point.
func (c *CrashDB) CrashBeforeWrite(n int) { c.crashBefore = n }
func (c *CrashDB) IOErrorAtWrite(n int)   { c.ioErrAt = n }
func (c *CrashDB) Dead() bool             { return c.dead }
func (c *CrashDB) WritesDone() int        { return c.writes }
func (c *CrashDB) Kill()                  { c.dead = true }

func (c *CrashDB) beforeWrite() error {
	if c.dead {
		return errCrashed
	}
	if c.writes == c.crashBefore {
		c.dead = true
		c.Fired = "crash"
		return errCrashed
	}
	if c.writes == c.ioErrAt {
		c.writes++
		c.Fired = "io-error"
		return errInjectedIO
	}
	c.writes++
	return nil
}

func (c *CrashDB) alive() error {
	if c.dead {
		return errCrashed
	}
	return nil
}

func (c *CrashDB) Has(k []byte) (bool, error) {
	if err := c.alive(); err != nil {
		return false, err
	}
	return c.disk.inner.Has(k)
}

func (c *CrashDB) Get(k []byte) ([]byte, error) {
	if err := c.alive(); err != nil {
		return nil, err
	}
	return c.disk.inner.Get(k)
}

func (c *CrashDB) Put(k, v []byte) error {
	if err := c.beforeWrite(); err != nil {
		return err
	}
	c.disk.Writes++
	return c.disk.inner.Put(k, v)
}

func (c *CrashDB) Delete(k []byte) error {
	if err := c.beforeWrite(); err != nil {
		return err
	}
	c.disk.Writes++
	return c.disk.inner.Delete(k)
}

func (c *CrashDB) NewBatch() database.Batch {
	return &crashBatch{Batch: c.disk.inner.NewBatch(), c: c}
}

type crashBatch struct {
	database.Batch
	c *CrashDB
}

func (b *crashBatch) Write() error {
	if err := b.c.beforeWrite(); err != nil {
		return err
	}
	b.c.disk.Writes++
	return b.Batch.Write()
}

func (b *crashBatch) Inner() database.Batch { return b.Batch }

func (c *CrashDB) NewIterator() database.Iterator { return c.NewIteratorWithStartAndPrefix(nil, nil) }
func (c *CrashDB) NewIteratorWithStart(s []byte) database.Iterator {
	return c.NewIteratorWithStartAndPrefix(s, nil)
}
func (c *CrashDB) NewIteratorWithPrefix(p []byte) database.Iterator {
	return c.NewIteratorWithStartAndPrefix(nil, p)
}
func (c *CrashDB) NewIteratorWithStartAndPrefix(s, p []byte) database.Iterator {
	if c.dead {
		return &database.IteratorError{Err: errCrashed}
	}
	return c.disk.inner.NewIteratorWithStartAndPrefix(s, p)
}
func (c *CrashDB) Compact(_, _ []byte) error { return c.alive() }
func (c *CrashDB) Close() error              { c.dead = true; return nil }
func (c *CrashDB) HealthCheck(context.Context) (interface{}, error) {
	return nil, c.alive()
}

package e4

import (
	"context"
	"fmt"
	"sort"

	"github.com/ava-labs/avalanchego/ids"
	"github.com/ava-labs/avalanchego/utils/crypto/bls"
	"github.com/ava-labs/avalanchego/utils/wrappers"
	"github.com/ava-labs/avalanchego/vms/platformvm/warp"

	"github.com/ava-labs/hypersdk/codec"
	"github.com/ava-labs/hypersdk/consts"
	"github.com/ava-labs/hypersdk/utils"
	"github.com/ava-labs/hypersdk/verifsim/simk"
	"github.com/ava-labs/hypersdk/x/dsmr"
	"github.com/ava-labs/hypersdk/x/dsmr/dsmrtest"
)

func init() {
	register(&simk.Prop{
		ID:    "C36",
		Level: "fault_enumeration",
		Rule: "seeded histories (<=12 ops) of local chunk adds with certificate, remote chunk adds, certificate updates and minimum advances that save some pending chunks as accepted (sometimes one the same advance would otherwise expire) and expire others, over <=6 chunks of 3 producers, on the real ChunkStorage over a crash-injecting database; for every history the durable writes W are counted and the history re-run crashing before write k for each k (exhaustive for that history), followed by a reopen; after every reopen (and at the end) the pending set, the accepted set, the readable chunks and the per-producer pending weight, all read through the public API, and the minimum expiry (verif-tagged accessor) are compared with a set model; after a crash the observed state must equal, in every respect at once, either the model before the interrupted operation or the model after it; " +
			"non-trivial = the history saves or expires a chunk; distinct = distinct (history, crash point) hashes",
		Exec:        c36,
		Real:        []string{"x/dsmr ChunkStorage (AddLocalChunkWithCert, VerifyRemoteChunk, SetChunkCert, SetMin, GetChunkBytes, CheckRateLimit, init)", "internal/emap", "dsmr chunk encoding (ParseChunk)"},
		Stub:        []string{"disk: crash-injecting database.Database over avalanchego memdb", "chunk verifier (stub accepting every chunk; signatures are exercised in the E5 checks)"},
		Assumptions: []string{"per-producer pending weight is read through CheckRateLimit with a probing rule factory; pending-ness through SetChunkCert; the persisted minimum expiry through a fresh open (it is not observable otherwise)"},
	})
}

// mirror of dsmr.Chunk's wire layout (its constructor is unexported): marshalled with the same codec, then parsed by dsmr.ParseChunk
type wireChunk struct {
	Producer    ids.NodeID             `serialize:"true"`
	Beneficiary codec.Address          `serialize:"true"`
	Expiry      int64                  `serialize:"true"`
	Txs         []dsmrtest.Tx          `serialize:"true"`
	Signer      [bls.PublicKeyLen]byte `serialize:"true"`
	Signature   [bls.SignatureLen]byte `serialize:"true"`
}

func mkChunk(producer ids.NodeID, expiry int64, nTx int, salt int) (dsmr.Chunk[dsmrtest.Tx], ids.ID, []byte, error) {
	w := wireChunk{Producer: producer, Expiry: expiry}
	for i := 0; i < nTx; i++ {
		w.Txs = append(w.Txs, dsmrtest.Tx{ID: ids.Empty.Prefix(uint64(salt), uint64(i)), Expiry: expiry, Sponsor: codec.Address{byte(salt)}})
	}
	p := wrappers.Packer{Bytes: make([]byte, 0, 1024), MaxSize: consts.NetworkSizeLimit}
	if err := codec.LinearCodec.MarshalInto(w, &p); err != nil {
		return dsmr.Chunk[dsmrtest.Tx]{}, ids.Empty, nil, err
	}
	c, err := dsmr.ParseChunk[dsmrtest.Tx](p.Bytes)
	// ParseChunk re-encodes with the same codec: the chunk's bytes are p.Bytes and its id their hash
	return c, utils.ToID(p.Bytes), p.Bytes, err
}

type stubVerifier struct{ min int64 }

func (*stubVerifier) Verify(dsmr.Chunk[dsmrtest.Tx]) error { return nil }
func (s *stubVerifier) SetMin(m int64)                     { s.min = m }
func (*stubVerifier) VerifyCertificate(context.Context, *dsmr.ChunkCertificate) error {
	return nil
}

type probeRules struct{ limit *uint64 }

func (p probeRules) GetValidityWindow() int64                     { return 1 << 40 }
func (p probeRules) GetMaxAccumulatedProducerChunkWeight() uint64 { return *p.limit }
func (p probeRules) GetRules(int64) dsmr.Rules                    { return p }

type c36Chunk struct {
	c        dsmr.Chunk[dsmrtest.Tx]
	id       ids.ID
	producer int
	expiry   int64
	size     uint64
}

type c36Op struct {
	Kind  string `json:"op"` // local | remote | cert | setmin | reopen
	Chunk int    `json:"chunk,omitempty"`
	Min   int64  `json:"min,omitempty"`
	Save  []int  `json:"save,omitempty"`
}

type c36Model struct {
	pending  map[int]bool
	accepted map[int]bool
	min      int64
}

func c36Observe(st *dsmr.ChunkStorage[dsmrtest.Tx], limit *uint64, chunks []c36Chunk, producers []ids.NodeID) (pending map[int]bool, readable map[int]bool, weight []uint64, err error) {
	ctx := context.Background()
	pending, readable = map[int]bool{}, map[int]bool{}
	for i, ch := range chunks {
		if _, e := st.GetChunkBytes(ch.expiry, ch.id); e == nil {
			readable[i] = true
		}
		cert := &dsmr.ChunkCertificate{ChunkReference: dsmr.ChunkReference{ChunkID: ch.id, Producer: producers[ch.producer], Expiry: ch.expiry}, Signature: &warp.BitSetSignature{}}
		if e := st.SetChunkCert(ctx, ch.id, cert); e == nil {
			pending[i] = true
		}
	}
	// per-producer pending weight W: CheckRateLimit(probe) fails iff len(probe)+W > limit
	weight = make([]uint64, len(producers))
	for pi, p := range producers {
		probe, _, pb, e := mkChunk(p, 1<<30, 0, 999)
		if e != nil {
			return nil, nil, nil, e
		}
		base := uint64(len(pb))
		lo, hi := uint64(0), uint64(1<<20)
		for lo < hi {
			mid := (lo + hi) / 2
			*limit = base + mid
			if st.CheckRateLimit(probe) == nil { // W <= mid
				hi = mid
			} else {
				lo = mid + 1
			}
		}
		weight[pi] = lo
	}
	return pending, readable, weight, nil
}

func c36(r *simk.Run) *simk.Violation {
	c := r.C
	s := r.NewSim()
	producers := []ids.NodeID{ids.BuildTestNodeID([]byte{1}), ids.BuildTestNodeID([]byte{2}), ids.BuildTestNodeID([]byte{3})}
	nChunks := 1 + c.Intn(6)
	chunks := make([]c36Chunk, nChunks)
	for i := range chunks {
		pi := c.Intn(3)
		exp := int64(10 + c.Intn(6)*10)
		ch, id, b, err := mkChunk(producers[pi], exp, 1+c.Intn(3), i)
		if err != nil {
			return &simk.Violation{Class: "harness", Detail: err.Error()}
		}
		chunks[i] = c36Chunk{c: ch, id: id, producer: pi, expiry: exp, size: uint64(len(b))}
	}
	nOps := 1 + c.Intn(12)
	var ops []c36Op
	// generate against a shadow model so that ops are meaningful
	sh := &c36Model{pending: map[int]bool{}, accepted: map[int]bool{}}
	interesting := false
	for tries := 0; len(ops) < nOps && tries < 300; tries++ {
		switch c.Weighted(5, 3, 1, 4, 2) {
		case 0, 1:
			i := c.Intn(nChunks)
			if sh.pending[i] {
				continue
			}
			if sh.accepted[i] {
				// a chunk that was already saved as accepted is sometimes offered again (a repeated signature
				// request, a late gossip): it is pending once more, and must still be after a restart
				if chunks[i].expiry < sh.min || !c.Bool(0.3) {
					continue
				}
				interesting = true
			}
			kind := "local"
			if c.Bool(0.4) {
				kind = "remote"
			}
			ops = append(ops, c36Op{Kind: kind, Chunk: i})
			sh.pending[i] = true
		case 2:
			i := c.Intn(nChunks)
			if !sh.pending[i] {
				continue
			}
			ops = append(ops, c36Op{Kind: "cert", Chunk: i})
		case 3:
			m := sh.min + int64(c.Intn(4))*10
			var save []int
			for i := range chunks {
				// mostly chunks that stay valid; sometimes also one the same advance would otherwise expire
				if sh.pending[i] && (chunks[i].expiry >= m || c.Bool(0.3)) && c.Bool(0.5) {
					if r.Avoid {
						continue
					}
					save = append(save, i)
				}
			}
			ops = append(ops, c36Op{Kind: "setmin", Min: m, Save: save})
			for _, i := range save {
				delete(sh.pending, i)
				sh.accepted[i] = true
				interesting = true
			}
			for i := range chunks {
				if sh.pending[i] && chunks[i].expiry < m {
					delete(sh.pending, i)
					interesting = true
				}
			}
			sh.min = m
		default:
			ops = append(ops, c36Op{Kind: "reopen"})
		}
		if len(ops) > 40 {
			break
		}
	}
	ops = append(ops, c36Op{Kind: "reopen"})
	r.Sample(map[string]any{"chunks": func() []string {
		var o []string
		for i, ch := range chunks {
			o = append(o, fmt.Sprintf("chunk%d(producer %d, expiry %d, %d bytes)", i, ch.producer, ch.expiry, ch.size))
		}
		return o
	}(), "ops": ops})
	r.Fingerprint("%v|%v", chunks2s(chunks), ops)
	if interesting {
		r.Nontrivial()
	}

	// the durable effect of a completed operation on the model
	applyOp := func(m *c36Model, op c36Op) {
		switch op.Kind {
		case "local", "remote":
			m.pending[op.Chunk] = true
		case "setmin":
			for _, i := range op.Save {
				if m.pending[i] {
					delete(m.pending, i)
					m.accepted[i] = true
				}
			}
			for i := range chunks {
				if m.pending[i] && chunks[i].expiry < op.Min {
					delete(m.pending, i)
				}
			}
			m.min = op.Min
		}
	}
	// alt (optional): the model if the operation interrupted by the crash became durable as a whole;
	// after the reopen the storage must equal m or alt in every observed respect
	ioErrAt := -1 // when >= 0: that write of the first incarnation fails with an I/O error instead
	run := func(disk *Disk, crashBefore int, m *c36Model, start int, alt *c36Model) (*simk.Violation, int, bool) {
		db := disk.Open()
		if crashBefore >= 0 {
			db.CrashBeforeWrite(crashBefore)
		}
		if ioErrAt >= 0 {
			db.IOErrorAtWrite(ioErrAt)
		}
		limit := uint64(1 << 40)
		ver := &stubVerifier{}
		open := func() (*dsmr.ChunkStorage[dsmrtest.Tx], error) {
			return dsmr.NewChunkStorage[dsmrtest.Tx](ver, db, probeRules{&limit})
		}
		compare := func(st *dsmr.ChunkStorage[dsmrtest.Tx], when string) *simk.Violation {
			pend, readable, weight, err := c36Observe(st, &limit, chunks, producers)
			limit = 1 << 40
			if err != nil {
				return &simk.Violation{Class: "harness", Detail: err.Error()}
			}
			wantW := make([]uint64, len(producers))
			for i, ch := range chunks {
				if m.pending[i] {
					wantW[ch.producer] += ch.size
				}
				if pend[i] != m.pending[i] {
					cls := "C36/pending-chunk-lost"
					if pend[i] {
						cls = "C36/accepted-or-expired-chunk-pending-again"
					}
					return &simk.Violation{Class: cls, Detail: fmt.Sprintf("%s: chunk %d pending=%v, model says %v (accepted in model: %v); ops=%v", when, i, pend[i], m.pending[i], m.accepted[i], ops)}
				}
				wantReadable := m.pending[i] || m.accepted[i]
				if readable[i] != wantReadable {
					cls := "C36/chunk-unreadable"
					if readable[i] {
						cls = "C36/expired-chunk-readable"
					}
					return &simk.Violation{Class: cls, Detail: fmt.Sprintf("%s: chunk %d readable=%v, model says %v; ops=%v", when, i, readable[i], wantReadable, ops)}
				}
			}
			if got := st.VerifMinimumExpiry(); got != m.min {
				return &simk.Violation{Class: "C36/minimum-expiry-differs", Detail: fmt.Sprintf("%s: minimum expiry %d, model says %d; ops=%v", when, got, m.min, ops)}
			}
			for pi := range producers {
				if weight[pi] != wantW[pi] {
					return &simk.Violation{Class: "C36/pending-weight-differs", Detail: fmt.Sprintf("%s: producer %d pending weight %d, model says %d; ops=%v", when, pi, weight[pi], wantW[pi], ops)}
				}
			}
			return nil
		}
		st, err := open()
		if err != nil {
			if db.Dead() {
				return nil, start, true
			}
			return &simk.Violation{Class: "C36/open-fails", Detail: err.Error()}, start, false
		}
		if v := compare(st, fmt.Sprintf("after (re)open before op %d", start)); v != nil {
			if alt == nil {
				return v, start, false
			}
			*m = *alt
			if v2 := compare(st, fmt.Sprintf("after (re)open before op %d", start)); v2 != nil {
				v.Class = "C36/interrupted-operation-half-applied"
				v.Detail = "neither the state before nor the state after the interrupted operation: " + v.Detail + " | against the completed operation: " + v2.Detail
				return v, start, false
			}
		}
		for i := start; i < len(ops); i++ {
			op := ops[i]
			var err error
			switch op.Kind {
			case "local":
				ch := chunks[op.Chunk]
				cert := &dsmr.ChunkCertificate{ChunkReference: dsmr.ChunkReference{ChunkID: ch.id, Producer: producers[ch.producer], Expiry: ch.expiry}, Signature: &warp.BitSetSignature{}}
				if err = st.AddLocalChunkWithCert(ch.c, cert); err == nil {
					applyOp(m, op)
				}
			case "remote":
				if _, err = st.VerifyRemoteChunk(chunks[op.Chunk].c); err == nil {
					applyOp(m, op)
				}
			case "cert":
				ch := chunks[op.Chunk]
				cert := &dsmr.ChunkCertificate{ChunkReference: dsmr.ChunkReference{ChunkID: ch.id, Producer: producers[ch.producer], Expiry: ch.expiry}, Signature: &warp.BitSetSignature{}}
				if e := st.SetChunkCert(context.Background(), ch.id, cert); e != nil && m.pending[op.Chunk] {
					err = e
				}
			case "setmin":
				var save []ids.ID
				for _, i := range op.Save {
					if m.pending[i] { // a chunk lost to an earlier crash cannot be saved
						save = append(save, chunks[i].id)
					}
				}
				if err = st.SetMin(op.Min, save); err == nil {
					applyOp(m, op)
				}
			case "reopen":
				db.Kill()
				db = disk.Open()
				crashBefore = -1
				st, err = open()
				if err == nil {
					if v := compare(st, fmt.Sprintf("after reopen at op %d", i)); v != nil {
						return v, i, false
					}
				}
			}
			if err != nil {
				if db.Dead() {
					return nil, i, true
				}
				if db.Fired == "io-error" {
					db.Fired = ""
					s.FaultFired("write-error")
					if op.Kind == "local" || op.Kind == "remote" {
						// a refused add (the signature request is answered with an error, the node keeps running):
						// the chunk must be held neither in memory nor on disk
						if v := compare(st, fmt.Sprintf("after op %d (%s chunk %d) failed with a disk write error", i, op.Kind, op.Chunk)); v != nil {
							v.Class += "-after-write-error"
							return v, i, false
						}
						continue
					}
					// a failed minimum advance is fatal for the node (Accept fails): it restarts
					db.Kill()
					return nil, i, true
				}
				return &simk.Violation{Class: "C36/op-fails", Detail: fmt.Sprintf("op %d %v failed on a healthy database: %v", i, op, err)}, i, false
			}
		}
		return nil, len(ops), false
	}
	disk := NewDisk()
	m := &c36Model{pending: map[int]bool{}, accepted: map[int]bool{}}
	if v, _, _ := run(disk, -1, m, 0, nil); v != nil {
		return v
	}
	W := disk.Writes
	for k := 0; k < W; k++ {
		d := NewDisk()
		mm := &c36Model{pending: map[int]bool{}, accepted: map[int]bool{}}
		v, at, crashed := run(d, k, mm, 0, nil)
		if v != nil {
			v.Detail = fmt.Sprintf("[crash before write %d] ", k) + v.Detail
			return v
		}
		if !crashed {
			continue
		}
		s.FaultFired("crash-before-write")
		r.Fingerprint("crash@%d", k)
		// the interrupted op is lost (nothing re-delivers a chunk add); continue with the next one
		var alt *c36Model
		if at < len(ops) {
			alt = &c36Model{pending: map[int]bool{}, accepted: map[int]bool{}, min: mm.min}
			for k2, v2 := range mm.pending {
				alt.pending[k2] = v2
			}
			for k2, v2 := range mm.accepted {
				alt.accepted[k2] = v2
			}
			applyOp(alt, ops[at])
		}
		if v, _, _ := run(d, -1, mm, at+1, alt); v != nil {
			v.Class += "-after-crash"
			v.Detail = fmt.Sprintf("[crashed before write %d during op %d, reopened] ", k, at) + v.Detail
			return v
		}
	}
	s.Probes["crash_points_enumerated"] += W
	// the same points as I/O errors: the write fails, the process lives on
	for k := 0; k < W; k++ {
		d := NewDisk()
		mm := &c36Model{pending: map[int]bool{}, accepted: map[int]bool{}}
		ioErrAt = k
		v, at, crashed := run(d, -1, mm, 0, nil)
		ioErrAt = -1
		if v != nil {
			v.Detail = fmt.Sprintf("[disk write %d fails] ", k) + v.Detail
			return v
		}
		if !crashed {
			continue
		}
		r.Fingerprint("ioerr@%d", k)
		// restart after the fatal write error; the failed batch left nothing behind
		if v, _, _ := run(d, -1, mm, at+1, nil); v != nil {
			v.Class += "-after-write-error"
			v.Detail = fmt.Sprintf("[disk write %d failed during op %d, restarted] ", k, at) + v.Detail
			return v
		}
	}
	return nil
}

func chunks2s(cs []c36Chunk) string {
	var o []string
	for _, c := range cs {
		o = append(o, fmt.Sprintf("%d/%d/%d", c.producer, c.expiry, c.size))
	}
	sort.Strings(o)
	return fmt.Sprint(o)
}

package e4

import (
	"bytes"
	"context"
	"encoding/binary"
	"errors"
	"fmt"

	"github.com/ava-labs/avalanchego/database"
	"github.com/ava-labs/avalanchego/ids"
	"github.com/ava-labs/avalanchego/utils/logging"
	"github.com/prometheus/client_golang/prometheus"

	"github.com/ava-labs/hypersdk/chainindex"
	"github.com/ava-labs/hypersdk/verifsim/simk"
)

func init() {
	register(&simk.Prop{
		ID:    "C19",
		Level: "fault_enumeration",
		Rule: "seeded histories (<=14 ops) of consecutive accepts, accepts after a height gap (state sync), the last accepted block recorded again (same sync target after a restart), historical saves of older blocks, restarts with the same or another window, windows 0/1/2/3/5, on the real ChainIndex over a crash-injecting database; for every history the number W of durable writes is counted in a fault-free run and the history is then re-run W more times, crashing before write k (k=1..W, exhaustive for that history), restarting and finishing the history; after every operation all queries are compared with a window model; " +
			"non-trivial = the history contains a gap, a historical save or a restart; distinct = distinct (history, crash point) hashes",
		Exec:        c19,
		Real:        []string{"chainindex.ChainIndex (UpdateLastAccepted, SaveHistorical, cleanupOnStartup, lookups)"},
		Stub:        []string{"disk: crash-injecting database.Database over avalanchego memdb (every write of the real stores is a synchronous atomic batch, so durable state = prefix of completed writes)", "blocks (id/height/bytes records)"},
		Assumptions: []string{"pebble's own crash recovery is trusted (writes are issued with pebble.Sync); the crash model is at the granularity of the wrapper's write operations"},
	})
}

type tblock struct {
	id     ids.ID
	height uint64
	bytes  []byte
}

func (b *tblock) GetID() ids.ID     { return b.id }
func (b *tblock) GetHeight() uint64 { return b.height }
func (b *tblock) GetBytes() []byte  { return b.bytes }

func mkBlock(height uint64, salt int) *tblock {
	b := make([]byte, 12)
	binary.BigEndian.PutUint64(b, height)
	binary.BigEndian.PutUint32(b[8:], uint32(salt))
	return &tblock{id: ids.Empty.Prefix(height, uint64(salt)+1), height: height, bytes: b}
}

type tparser struct{}

func (tparser) ParseBlock(_ context.Context, b []byte) (*tblock, error) {
	if len(b) != 12 {
		return nil, fmt.Errorf("bad block bytes")
	}
	h := binary.BigEndian.Uint64(b)
	salt := int(binary.BigEndian.Uint32(b[8:]))
	return mkBlock(h, salt), nil
}

type c19Op struct {
	Kind   string `json:"op"` // accept | historical | restart
	Height uint64 `json:"height,omitempty"`
	Window uint64 `json:"window,omitempty"`
}

type c19Model struct {
	stored map[uint64]*tblock // everything ever durably stored and not yet allowed to be pruned is tracked here
	last   uint64
	hasAny bool
}

// forget drops from the guaranteed set every block that lies outside the window now in force:
// once a block was allowed to be pruned it need never be retrievable again, even if the window grows later.
func (m *c19Model) forget(window uint64) {
	if window == 0 {
		return
	}
	for h := range m.stored {
		if h != 0 && h+window <= m.last {
			delete(m.stored, h)
		}
	}
}

// runC19 executes ops[from:] on a fresh incarnation; returns violation, number of ops completed, crashed flag.
func c19Run(disk *Disk, ops []c19Op, window uint64, crashBefore int, m *c19Model, startOp int) (*simk.Violation, int, bool, uint64) {
	ctx := context.Background()
	db := disk.Open()
	if crashBefore >= 0 {
		db.CrashBeforeWrite(crashBefore)
	}
	open := func(w uint64) (*chainindex.ChainIndex[*tblock], error) {
		return chainindex.New[*tblock](ctx, logging.NoLog{}, prometheus.NewRegistry(), chainindex.Config{AcceptedBlockWindow: w, BlockCompactionFrequency: 1 + w%3}, tparser{}, db)
	}
	m.forget(window) // opening the index runs the startup cleanup
	ci, err := open(window)
	if err != nil {
		if db.Dead() {
			return nil, startOp, true, window
		}
		return &simk.Violation{Class: "C19/open-fails", Detail: fmt.Sprintf("opening the index on a healthy database failed: %v", err)}, startOp, false, window
	}
	check := func(when string) *simk.Violation {
		if !m.hasAny {
			return nil
		}
		got, err := ci.GetLastAcceptedHeight(ctx)
		if err != nil || got != m.last {
			return &simk.Violation{Class: "C19/last-accepted", Detail: fmt.Sprintf("%s: last accepted height = (%d, %v), model says %d", when, got, err, m.last)}
		}
		for h, b := range m.stored {
			inWindow := window == 0 || h == 0 || h+window > m.last // heights in (last-window, last]
			if !inWindow {
				continue
			}
			gb, err := ci.GetBlockByHeight(ctx, h)
			if err != nil {
				return &simk.Violation{Class: "C19/window-block-missing", Detail: fmt.Sprintf("%s: block at height %d (last accepted %d, window %d) is not retrievable by height: %v", when, h, m.last, window, err)}
			}
			if gb.id != b.id || !bytes.Equal(gb.bytes, b.bytes) {
				return &simk.Violation{Class: "C19/wrong-block", Detail: fmt.Sprintf("%s: height %d returns another block", when, h)}
			}
			id, err := ci.GetBlockIDAtHeight(ctx, h)
			if err != nil || id != b.id {
				return &simk.Violation{Class: "C19/inconsistent-mapping", Detail: fmt.Sprintf("%s: height %d -> id (%s, %v), want %s", when, h, id, err, b.id)}
			}
			hh, err := ci.GetBlockIDHeight(ctx, b.id)
			if err != nil || hh != h {
				return &simk.Violation{Class: "C19/inconsistent-mapping", Detail: fmt.Sprintf("%s: id of height %d -> height (%d, %v)", when, h, hh, err)}
			}
			g2, err := ci.GetBlock(ctx, b.id)
			if err != nil || g2.height != h {
				return &simk.Violation{Class: "C19/inconsistent-mapping", Detail: fmt.Sprintf("%s: GetBlock(id of height %d) = (%v, %v)", when, h, g2, err)}
			}
		}
		return nil
	}
	if v := check(fmt.Sprintf("after (re)start before op %d", startOp)); v != nil {
		return v, startOp, false, window
	}
	for i := startOp; i < len(ops); i++ {
		op := ops[i]
		switch op.Kind {
		case "accept":
			b := mkBlock(op.Height, 0)
			err := ci.UpdateLastAccepted(ctx, b)
			if err != nil {
				if db.Dead() {
					return nil, i, true, window
				}
				cls := "C19/accept-fails"
				if errors.Is(err, database.ErrNotFound) {
					cls = "C19/accept-fails-when-prune-target-missing"
				}
				return &simk.Violation{Class: cls, Detail: fmt.Sprintf("op %d: recording accepted block %d (last accepted %d, window %d) failed on a healthy database: %v; history=%v", i, op.Height, m.last, window, err, ops)}, i, false, window
			}
			m.stored[op.Height] = b
			m.last = op.Height
			m.hasAny = true
			m.forget(window)
		case "bulk": // op.Height consecutive accepts starting at op.Window (a long-running node)
			for h := op.Window; h < op.Window+op.Height; h++ {
				b := mkBlock(h, 0)
				if err := ci.UpdateLastAccepted(ctx, b); err != nil {
					if db.Dead() {
						return nil, i, true, window
					}
					return &simk.Violation{Class: "C19/accept-fails", Detail: fmt.Sprintf("op %d: recording accepted block %d of a run of consecutive accepts failed: %v", i, h, err)}, i, false, window
				}
				m.stored[h] = b
				m.last = h
				m.hasAny = true
				if h%64 == 0 {
					m.forget(window)
				}
			}
			m.forget(window)
		case "historical":
			b := mkBlock(op.Height, 0)
			if err := ci.SaveHistorical(b); err != nil {
				if db.Dead() {
					return nil, i, true, window
				}
				return &simk.Violation{Class: "C19/historical-save-fails", Detail: fmt.Sprintf("op %d: SaveHistorical(%d) failed: %v", i, op.Height, err)}, i, false, window
			}
			m.stored[op.Height] = b
		case "restart":
			db.Kill()
			db = disk.Open()
			if crashBefore >= 0 {
				// the armed crash point counts writes of the first incarnation only
				crashBefore = -1
			}
			window = op.Window
			m.forget(window)
			ci, err = open(window)
			if err != nil {
				return &simk.Violation{Class: "C19/open-fails", Detail: fmt.Sprintf("op %d: reopening with window %d failed: %v", i, window, err)}, i, false, window
			}
			if window != 0 && m.hasAny {
				// bounded retention after startup cleanup (relative to the last accepted block)
				n := 0
				for k := range disk.Dump() {
					if len(k) == 9 && k[0] == 0x0 && binary.BigEndian.Uint64([]byte(k[1:])) != 0 {
						n++
					}
				}
				if uint64(n) > window+1 {
					return &simk.Violation{Class: "C19/retention-unbounded", Detail: fmt.Sprintf("op %d: %d non-genesis blocks retained after restart with window %d; history=%v", i, n, window, ops)}, i, false, window
				}
			}
		}
		if v := check(fmt.Sprintf("after op %d (%s %d)", i, op.Kind, op.Height)); v != nil {
			v.Detail += fmt.Sprintf("; history=%v", ops)
			return v, i, false, window
		}
	}
	return nil, len(ops), false, window
}

func c19(r *simk.Run) *simk.Violation {
	c := r.C
	s := r.NewSim()
	window := []uint64{2, 0, 1, 3, 5}[c.Intn(5)]
	nOps := 1 + c.Intn(14)
	var ops []c19Op
	next := uint64(0)
	if c.Bool(0.7) {
		ops = append(ops, c19Op{Kind: "accept", Height: 0}) // genesis
		next = 1
	} else {
		next = uint64(1 + c.Intn(20)) // node that state-synced: first accepted block is far from genesis
	}
	interesting := false
	stored := map[uint64]bool{}
	// long-running node (3% of the runs; no crash enumeration): thousands of blocks under a large window, then
	// a restart with a small one -- the startup cleanup has to remove every block that left the window
	long := c.Bool(0.03)
	if long {
		window = []uint64{5000, 0, 3000}[c.Intn(3)]
		n := uint64(1030 + c.Intn(2200))
		ops = append(ops, c19Op{Kind: "bulk", Height: n, Window: next})
		next += n
		ops = append(ops, c19Op{Kind: "restart", Window: []uint64{1, 5, 10, 2}[c.Intn(4)]})
		interesting = true
		nOps = len(ops) + c.Intn(4)
	}
	for tries := 0; len(ops) < nOps && tries < 300; tries++ {
		switch c.Weighted(8, 2, 2, 2, 1) {
		case 4: // the last accepted block is recorded again (the same sync target after a restart)
			if next == 0 || len(ops) == 0 {
				continue
			}
			ops = append(ops, c19Op{Kind: "accept", Height: next - 1})
			interesting = true
		case 0:
			ops = append(ops, c19Op{Kind: "accept", Height: next})
			stored[next] = true
			next++
		case 1: // gap (state sync jumps ahead)
			if r.Avoid {
				continue
			}
			next += uint64(1 + c.Intn(8))
			ops = append(ops, c19Op{Kind: "accept", Height: next})
			stored[next] = true
			next++
			interesting = true
		case 2:
			if next < 2 {
				continue
			}
			h := uint64(1 + c.Intn(int(next-1)))
			if stored[h] {
				continue
			}
			ops = append(ops, c19Op{Kind: "historical", Height: h})
			stored[h] = true
			interesting = true
		default:
			w := window
			if c.Bool(0.4) {
				w = []uint64{2, 0, 1, 3, 5}[c.Intn(5)]
			}
			ops = append(ops, c19Op{Kind: "restart", Window: w})
			interesting = true
		}
		if len(ops) > 40 {
			break
		}
	}
	r.Sample(map[string]any{"window": window, "ops": ops})
	r.Fingerprint("%d|%v", window, ops)
	if interesting {
		r.Nontrivial()
	}
	// fault-free run: counts durable writes
	disk := NewDisk()
	m := &c19Model{stored: map[uint64]*tblock{}}
	if v, _, _, _ := c19Run(disk, ops, window, -1, m, 0); v != nil {
		return v
	}
	W := disk.Writes
	if long {
		W = 0 // thousands of writes: the fault-free run is the check
		s.Probe("long_chain_then_smaller_window")
	}
	// crash before every durable write, restart, finish the history
	for k := 0; k < W; k++ {
		d := NewDisk()
		mm := &c19Model{stored: map[uint64]*tblock{}}
		v, at, crashed, w2 := c19Run(d, ops, window, k, mm, 0)
		if v != nil {
			v.Detail = fmt.Sprintf("[crash before write %d] ", k) + v.Detail
			return v
		}
		if !crashed {
			continue // the crash point lies beyond a restart of the history
		}
		s.FaultFired("crash-before-write")
		r.Fingerprint("crash@%d", k)
		// restart on the surviving disk; the interrupted op is retried (the engine re-delivers an accept)
		if v, _, _, _ := c19Run(d, ops, w2, -1, mm, at); v != nil {
			v.Class += "-after-crash"
			v.Detail = fmt.Sprintf("[crashed before write %d during op %d, restarted] ", k, at) + v.Detail
			return v
		}
	}
	s.Probes["crash_points_enumerated"] += W
	return nil
}

package e2

import (
	"context"
	"encoding/binary"
	"fmt"
	"math/big"
	"time"

	"github.com/ava-labs/hypersdk/chain"
	"github.com/ava-labs/hypersdk/codec"
	"github.com/ava-labs/hypersdk/examples/morpheusvm/actions"
	"github.com/ava-labs/hypersdk/examples/morpheusvm/storage"
	mvm "github.com/ava-labs/hypersdk/examples/morpheusvm/vm"
	"github.com/ava-labs/hypersdk/fees"
	"github.com/ava-labs/hypersdk/internal/workers"
	"github.com/ava-labs/hypersdk/verifsim/simk"

	internalfees "github.com/ava-labs/hypersdk/internal/fees"
)

func init() {
	register(&simk.Prop{ID: "C06", Level: "exploration",
		Rule: "seeded chains of 1..3 blocks of 0..6 morpheusvm transactions with 1..16 Transfer actions among <=4 funded accounts and one unfunded address (self-transfers, full-balance and remaining-balance transfers, zero and overflowing amounts, emptying and refilling an account inside one transaction, oversize memos, failing actions in the middle), random genesis allocation, executed by the real Processor with the morpheusvm balance handler on merkledb under the seeded scheduler (1..8 cores); after every block the sum of all balance entries in the complete state dump must equal the previous sum minus the fees of that block, and every balance must equal a sequential big-integer ledger; " +
			"non-trivial = some account is emptied or created in the block and >=2 runnable tasks at some step; distinct = (allocation, blocks, schedule) hashes",
		Real: append([]string{"examples/morpheusvm actions.Transfer, storage (AddBalance/SubBalance), storage.BalanceHandler, vm parser"}, e2Real...), Stub: e2Stub,
		Exec: c06})
}

type c06Xfer struct {
	To    int    `json:"to"` // account index; 4 = unfunded outsider
	Value uint64 `json:"value"`
	Memo  int    `json:"memo_len,omitempty"`
}

type c06Tx struct {
	From  int       `json:"from"`
	Xfers []c06Xfer `json:"transfers"`
}

func c06(r *simk.Run) *simk.Violation {
	if r.C.Intn(6) == 0 {
		// the builder half (VM-independent): the state a builder derives must be the state verification
		// derives, so no fee is burned and no balance moved for a transaction that is not in the block
		return buildScenario(r, "C06", 0.8)
	}
	c := r.C
	s := r.NewSim()
	s.KeepLog = simk.WantLog()
	var viol *simk.Violation
	fail := func(class, f string, a ...any) {
		if viol == nil {
			viol = &simk.Violation{Class: "C06/" + class, Detail: fmt.Sprintf(f, a...)}
		}
	}
	var sample map[string]any
	nontrivial := false
	s.Run(r.T, func() {
		ctx := context.Background()
		rules := genRules(c, focus{})
		rules.MaxActionsPerTx = 16
		sp := sponsors()
		addrs := make([]codec.Address, 5)
		for i := 0; i < 4; i++ {
			addrs[i] = sp[i].Address()
		}
		addrs[4] = codec.CreateAddress(9, [32]byte{9, 9, 9})
		prices := fees.Dimensions{}
		for d := range prices {
			prices[d] = []uint64{1, 3, 100}[c.Intn(3)]
		}
		now := time.Now().UnixMilli()
		parentTS := now - 10_000
		var windows [fees.FeeDimensions][10]uint64
		feeState := FeeStateBytes(parentTS/1000, prices, windows, fees.Dimensions{})
		ledger := map[int]*big.Int{}
		kv := map[string][]byte{}
		alloc := make([]uint64, 4)
		for i := 0; i < 4; i++ {
			switch c.Intn(5) {
			case 0: // absent
			case 1:
				alloc[i] = uint64(1 + c.Intn(100_000))
			case 2:
				alloc[i] = 1 << 62
			default:
				alloc[i] = uint64(1_000_000 + c.Intn(1_000_000))
			}
			if alloc[i] > 0 {
				kv[string(storage.BalanceKey(addrs[i]))] = binary.BigEndian.AppendUint64(nil, alloc[i])
			}
			ledger[i] = new(big.Int).SetUint64(alloc[i])
		}
		ledger[4] = new(big.Int)
		env, err := NewEnv(ctx, rules, now, 0, parentTS, feeState, kv, nil)
		if err != nil {
			fail("harness", "%v", err)
			return
		}
		env.BHx = &storage.BalanceHandler{}
		sumState := func() (*big.Int, map[string]uint64, error) {
			tot := new(big.Int)
			bal := map[string]uint64{}
			it := env.DB.NewIterator()
			defer it.Release()
			for it.Next() {
				k := it.Key()
				if len(k) == 1+codec.AddressLen+2 && k[0] == 0x3 {
					if len(it.Value()) != 8 {
						return nil, nil, fmt.Errorf("balance entry %x has %d bytes", k, len(it.Value()))
					}
					v := binary.BigEndian.Uint64(it.Value())
					tot.Add(tot, new(big.Int).SetUint64(v))
					bal[string(k)] = v
				}
			}
			return tot, bal, nil
		}
		prevSum, _, err := sumState()
		if err != nil {
			fail("harness", "%v", err)
			return
		}
		nBlocks := 1 + c.Intn(3)
		uniq := uint64(0)
		var blocksSample []any
		parent := env.Parent
		parentHeight, curTS := uint64(0), parentTS
		curFee := feeState
		cores := 1 + c.Intn(8)
		for b := 0; b < nBlocks && viol == nil; b++ {
			blkTS := curTS + rules.MinBlockGap + 1000
			if blkTS > time.Now().UnixMilli() {
				time.Sleep(time.Duration(blkTS-time.Now().UnixMilli()) * time.Millisecond)
			}
			fm := internalfees.NewManager(append([]byte{}, curFee...)).ComputeNext(blkTS, rules)
			childPrices := fm.UnitPrices()
			nTx := c.Intn(7)
			var gts []c06Tx
			var txs []*chain.Transaction
			for t := 0; t < nTx; t++ {
				from := c.Intn(4)
				g := c06Tx{From: from}
				nA := 1 + c.Intn(4)
				if c.Bool(0.1) {
					nA = 1 + c.Intn(16)
				}
				var acts []chain.Action
				for a := 0; a < nA; a++ {
					x := c06Xfer{To: c.Intn(5)}
					if c.Bool(0.25) {
						x.To = from // self transfer
					}
					cur := ledger[from]
					switch c.Intn(8) {
					case 0:
						x.Value = 0
					case 1:
						x.Value = 1
					case 2:
						if cur.IsUint64() {
							x.Value = cur.Uint64() // the whole balance before the fee: more than is left
						}
					case 3:
						// roughly what is left after this transaction's fee: probes emptying the account
						if cur.IsUint64() && cur.Uint64() > 5000 {
							x.Value = cur.Uint64() - uint64(c.Intn(5000))
						}
					case 4:
						x.Value = ^uint64(0) - uint64(c.Intn(3))
					case 5:
						x.Value = 1 << 62
					default:
						x.Value = uint64(1 + c.Intn(2000))
					}
					if c.Bool(0.05) {
						x.Memo = 257 + c.Intn(10)
					} else if c.Bool(0.2) {
						x.Memo = c.Intn(200)
					}
					if a == 0 && x.Memo < 8 {
						x.Memo = 8 // room for a unique tag: identical transactions would be duplicates, not transfers
					}
					memo := make([]byte, x.Memo)
					if a == 0 {
						uniq++
						binary.BigEndian.PutUint64(memo, uniq)
					}
					g.Xfers = append(g.Xfers, x)
					acts = append(acts, &actions.Transfer{To: addrs[x.To], Value: x.Value, Memo: memo})
				}
				expiry := (blkTS/1000 + 1) * 1000
				td := chain.NewTxData(chain.Base{Timestamp: expiry, ChainID: rules.ChainID, MaxFee: ^uint64(0)}, acts)
				tx, err := td.Sign(sp[from])
				if err != nil {
					fail("harness", "%v", err)
					return
				}
				// exact-emptying variant: make the last transfer move precisely what remains after the fee
				if c.Bool(0.3) && len(g.Xfers) > 0 {
					if units, err := tx.Units(env.handler(), rules); err == nil {
						if fee, ok := refFee(childPrices, units); ok && ledger[from].IsUint64() && ledger[from].Uint64() > fee {
							rest := ledger[from].Uint64() - fee
							var moved uint64
							for _, x := range g.Xfers[:len(g.Xfers)-1] {
								if x.To != from && x.Value <= rest-moved && x.Value > 0 && x.Memo <= 256 {
									moved += x.Value
								}
							}
							if rest > moved {
								last := &g.Xfers[len(g.Xfers)-1]
								last.Value = rest - moved
								lm := []byte(nil)
								if len(g.Xfers) == 1 {
									lm = make([]byte, 8)
									binary.BigEndian.PutUint64(lm, uniq)
								}
								last.Memo = len(lm)
								acts[len(acts)-1] = &actions.Transfer{To: addrs[last.To], Value: last.Value, Memo: lm}
								td = chain.NewTxData(chain.Base{Timestamp: expiry, ChainID: rules.ChainID, MaxFee: ^uint64(0)}, acts)
								if tx, err = td.Sign(sp[from]); err != nil {
									fail("harness", "%v", err)
									return
								}
							}
						}
					}
				}
				// empty-and-refill pattern: every transfer moves exactly what is left after the fee; all but
				// the last go to the sender itself (the account entry is deleted and re-created each time)
				if c.Bool(0.15) {
					if units, err := tx.Units(env.handler(), rules); err == nil {
						if fee, ok := refFee(childPrices, units); ok && ledger[from].IsUint64() && ledger[from].Uint64() > fee {
							rest := ledger[from].Uint64() - fee
							for i := range g.Xfers {
								g.Xfers[i].Value = rest
								g.Xfers[i].To = from
								m := acts[i].(*actions.Transfer).Memo
								if len(m) > 256 {
									m = m[:8]
								}
								g.Xfers[i].Memo = len(m)
								acts[i] = &actions.Transfer{To: addrs[from], Value: rest, Memo: m}
							}
							if c.Bool(0.7) {
								li := len(g.Xfers) - 1
								g.Xfers[li].To = c.Intn(5)
								acts[li] = &actions.Transfer{To: addrs[g.Xfers[li].To], Value: rest, Memo: acts[li].(*actions.Transfer).Memo}
							}
							td = chain.NewTxData(chain.Base{Timestamp: expiry, ChainID: rules.ChainID, MaxFee: ^uint64(0)}, acts)
							if tx, err = td.Sign(sp[from]); err != nil {
								fail("harness", "%v", err)
								return
							}
						}
					}
				}
				gts = append(gts, g)
				txs = append(txs, tx)
				// provisional ledger update is done after execution (we need the fee of each tx)
			}
			root, _ := env.DB.GetMerkleRoot(ctx)
			sb, err := chain.NewStatelessBlock(parent.GetID(), blkTS, parentHeight+1, txs, root, nil)
			if err != nil {
				fail("harness", "%v", err)
				return
			}
			// sequential ledger (big integers); the block is invalid if a sponsor cannot pay its fee
			expectValid := true
			if len(txs) == 0 && blkTS < curTS+rules.MinEmptyBlockGap {
				expectValid = false
			}
			type exp struct {
				success bool
				fee     uint64
			}
			var exps []exp
			scratchLedger := map[int]*big.Int{}
			for i, v := range ledger {
				scratchLedger[i] = new(big.Int).Set(v)
			}
			emptiedOrCreated := false
			for ti, tx := range txs {
				units, err := tx.Units(env.handler(), rules)
				if err != nil {
					expectValid = false
					break
				}
				fee, ok := refFee(childPrices, units)
				if !ok {
					expectValid = false
					break
				}
				from := gts[ti].From
				if scratchLedger[from].Cmp(new(big.Int).SetUint64(fee)) < 0 || scratchLedger[from].Sign() == 0 {
					expectValid = false
					break
				}
				scratchLedger[from].Sub(scratchLedger[from], new(big.Int).SetUint64(fee))
				tmp := map[int]*big.Int{}
				for i, v := range scratchLedger {
					tmp[i] = new(big.Int).Set(v)
				}
				ok = true
				for _, x := range gts[ti].Xfers {
					v := new(big.Int).SetUint64(x.Value)
					if x.Value == 0 || x.Memo > 256 || tmp[from].Sign() == 0 || tmp[from].Cmp(v) < 0 {
						ok = false
						break
					}
					tmp[from].Sub(tmp[from], v)
					if tmp[from].Sign() == 0 {
						emptiedOrCreated = true
					}
					if tmp[x.To].Sign() == 0 {
						emptiedOrCreated = true
					}
					tmp[x.To].Add(tmp[x.To], v)
					if tmp[x.To].Cmp(maxU64) > 0 {
						ok = false
						break
					}
				}
				if ok {
					scratchLedger = tmp
				}
				exps = append(exps, exp{ok, fee})
			}
			w := workers.NewParallel(1+c.Intn(4), 4)
			proc, err := env.Processor(ctx, w, chain.Config{TargetBuildDuration: time.Second, TransactionExecutionCores: cores, StateFetchConcurrency: 1 + c.Intn(4), TargetTxsSize: 1 << 20})
			if err != nil {
				fail("harness", "%v", err)
				return
			}
			out, execErr := proc.Execute(ctx, env.DB, chain.NewExecutionBlock(sb), true)
			w.Stop()
			blocksSample = append(blocksSample, map[string]any{"txs": gts, "valid": execErr == nil})
			if (execErr == nil) != expectValid {
				fail("block-verdict", "block %d: Execute err=%v, ledger expects valid=%v\nblock=%s", b, execErr, expectValid, js(gts))
				return
			}
			if execErr != nil {
				break
			}
			if emptiedOrCreated && s.MultiPicks > 0 {
				nontrivial = true
			}
			totalFees := new(big.Int)
			for i, res := range out.ExecutionResults.Results {
				totalFees.Add(totalFees, new(big.Int).SetUint64(res.Fee))
				if res.Success != exps[i].success {
					fail("transfer-outcome", "block %d tx %d: success=%v (error %q), sequential ledger says %v\ntx=%s", b, i, res.Success, res.Error, exps[i].success, js(gts[i]))
					return
				}
			}
			if err := out.View.CommitToDB(ctx); err != nil {
				fail("harness", "%v", err)
				return
			}
			sum, bals, err := sumState()
			if err != nil {
				fail("malformed-balance", "%v", err)
				return
			}
			want := new(big.Int).Sub(prevSum, totalFees)
			if sum.Cmp(want) != 0 {
				fail("supply-not-conserved", "block %d: sum of balances %s, previous sum %s minus fees %s = %s (difference %s)\nblock=%s", b, sum, prevSum, totalFees, want, new(big.Int).Sub(sum, want), js(gts))
				return
			}
			for i, a := range addrs {
				got := bals[string(storage.BalanceKey(a))]
				if scratchLedger[i].Cmp(new(big.Int).SetUint64(got)) != 0 {
					fail("balance-differs", "block %d: account %d holds %d, sequential ledger says %s\nblock=%s", b, i, got, scratchLedger[i], js(gts))
					return
				}
			}
			ledger = scratchLedger
			prevSum = sum
			// advance
			env.Index.Set(sb.GetID(), chain.NewExecutionBlock(sb))
			parent = chain.NewExecutionBlock(sb)
			env.Parent = parent
			parentHeight++
			curTS = blkTS
			fk := string(chain.FeeKey(env.MM.FeePrefix()))
			v, err := env.DB.Get([]byte(fk))
			if err != nil {
				fail("harness", "%v", err)
				return
			}
			curFee = v
		}
		sample = map[string]any{"allocation": alloc, "blocks": blocksSample, "cores": cores}
		r.Fingerprint("%v|%s|%d", alloc, js(blocksSample), cores)
	})
	r.Sample(sample)
	if nontrivial {
		r.Nontrivial()
	}
	if v := s.Violation(); v != nil {
		return v
	}
	if viol != nil {
		return viol
	}
	if s.StepLimit {
		return nil
	}
	if s.Hung {
		return &simk.Violation{Class: "C06/hang", Detail: "block execution never returned: " + s.HangInfo}
	}
	return nil
}

var _ = mvm.Parser

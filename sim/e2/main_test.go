package e2

import (
	"encoding/json"
	"testing"

	"github.com/ava-labs/hypersdk/auth"
	"github.com/ava-labs/hypersdk/state/balance"
	"github.com/ava-labs/hypersdk/state/metadata"
	"github.com/ava-labs/hypersdk/verifsim/simk"
)

var props = map[string]*simk.Prop{}

func register(p *simk.Prop) { props[p.ID] = p }

func TestEngine(t *testing.T) { simk.Main(t, props) }

func js(v any) string {
	b, err := json.Marshal(v)
	if err != nil {
		return err.Error()
	}
	if len(b) > 6000 {
		return string(b[:6000]) + "..."
	}
	return string(b)
}

func envBalKey(f *auth.ED25519Factory) []byte {
	return balance.NewPrefixBalanceHandler([]byte{metadata.DefaultMinimumPrefix}).BalanceKey(f.Address())
}

var e2Real = []string{"chain.Processor.Execute", "chain.Transaction (StateKeys, Units, PreExecute, Execute)", "internal/executor", "internal/fetcher", "internal/workers + chain.AuthBatch + real ed25519", "state/tstate", "internal/fees.Manager", "internal/validitywindow.TimeValidityWindow + emap", "state/balance.PrefixBalanceHandler", "avalanchego x/merkledb (in-memory)", "canoto block/tx encoding"}
var e2Stub = []string{"goroutine scheduling (seeded scheduler)", "clock (synctest fake clock)", "actions (programmable SimAction interpreter)", "chain index (in-memory map holding the parent block)"}

const e2Rule = "seeded blocks of 0..N transactions (1..3 sponsors, 1..17 SimActions each: get/put/del/fail programs over <=6 keys incl. two keys differing only in the size suffix, declared permissions possibly weaker than needed), random parent state, rules, unit prices and block header, executed by the real Processor on merkledb under the seeded scheduler with 1..8 execution cores / fetch workers / signature workers and a second time under another configuration; verdict, per-tx results, units, fees, consumption and the complete post-state are compared with an independent sequential big-integer interpreter; non-trivial = >=2 txs and >=2 runnable tasks at some scheduling step; distinct = distinct (block, configuration, schedule) hashes"

func init() {
	register(&simk.Prop{ID: "C01", Level: "exploration", Rule: e2Rule + "; focus: conflicting key sets and schedules", Real: e2Real, Stub: e2Stub,
		Exec: func(r *simk.Run) *simk.Violation {
			return runBlock(r, focus{prop: "C01", headerFaults: 0.03, txFaults: 0.03, permFaults: 0.1, failOps: 0.1, tightUnits: 0.03, bigCosts: 0.01, dupTx: 0.03, maxTxs: 10})
		}})
	register(&simk.Prop{ID: "C03", Level: "exploration", Rule: e2Rule + "; focus: failing actions at any operation index, exact fee deduction, sponsor balances at/below the fee", Real: e2Real, Stub: e2Stub,
		Exec: func(r *simk.Run) *simk.Violation {
			if r.C.Intn(5) == 0 {
				// the builder half: a transaction the builder leaves out of the block (it does not fit, it
				// fails admission at build time) must leave no trace -- no fee, no effect -- in the built state
				return buildScenario(r, "C03", 0.8)
			}
			return runBlock(r, focus{prop: "C03", headerFaults: 0.01, txFaults: 0.02, permFaults: 0.15, failOps: 0.45, tightUnits: 0.02, bigCosts: 0.02, dupTx: 0.0, maxTxs: 4})
		}})
	register(&simk.Prop{ID: "C05", Level: "exploration", Rule: e2Rule + "; focus: every op under every declared permission subset, undeclared keys, size-suffix twins; the complete post-state dump must differ from the parent only on declared keys", Real: e2Real, Stub: e2Stub,
		Exec: func(r *simk.Run) *simk.Violation {
			if r.C.Intn(6) == 0 {
				// the builder half: what a transaction may read and write while a block is being built is what it
				// may read and write when the block is verified (same verdicts, same post-state)
				return buildScenario(r, "C05", 0.3)
			}
			return runBlock(r, focus{prop: "C05", headerFaults: 0.01, txFaults: 0.01, permFaults: 0.6, failOps: 0.05, tightUnits: 0.01, bigCosts: 0.0, dupTx: 0.0, maxTxs: 5})
		}})
	register(&simk.Prop{ID: "C12", Level: "exploration", Rule: e2Rule + "; focus: unit costs incl. overflow-inducing values, per-dimension limits at sum-1/sum/sum+1, duplicate key declarations across actions and sponsor; 1/3 of the runs build a block from a mempool under tight per-dimension limits (skip/stop paths) and re-verify it", Real: e2Real, Stub: e2Stub,
		Exec: func(r *simk.Run) *simk.Violation {
			if r.C.Intn(3) == 0 {
				// the builder half: a transaction that does not fit must leave the block's consumption unchanged
				return buildScenario(r, "C12", 0.9)
			}
			return runBlock(r, focus{prop: "C12", headerFaults: 0.01, txFaults: 0.01, permFaults: 0.1, failOps: 0.05, tightUnits: 0.5, bigCosts: 0.25, dupTx: 0.0, maxTxs: 6})
		}})
	register(&simk.Prop{ID: "C10", Level: "exploration", Rule: e2Rule + "; focus: expiry at t-1000, t, t+W, t+W+1000, misaligned, wrong chain id, action count at the limit +-1, activation ranges with -1 sentinels and boundary equalities, action counts far beyond the limit (255..528); 1/4 of the runs drive mempool admission (PreExecutor) through several submissions on one parent while the simulated clock advances (0 ms .. 61 s between submissions) and compare every verdict with the validity predicate at the current time", Real: e2Real, Stub: e2Stub,
		Exec: func(r *simk.Run) *simk.Violation {
			if r.C.Intn(4) == 0 {
				return c10Admission(r)
			}
			return runBlock(r, focus{prop: "C10", headerFaults: 0.02, txFaults: 0.5, permFaults: 0.05, failOps: 0.05, tightUnits: 0.0, bigCosts: 0.0, dupTx: 0.0, maxTxs: 4})
		}})
	register(&simk.Prop{ID: "C11", Level: "exploration", Rule: e2Rule + "; focus: header mutations (height, timestamp around parent+gap / parent+emptyGap / now+FutureBound, stale state root) on arbitrary parents; 1/8 of the runs verify children of the real genesis block (chain.NewGenesisCommit) at timestamps around the genesis block's own timestamp", Real: e2Real, Stub: e2Stub,
		Exec: func(r *simk.Run) *simk.Violation {
			if r.C.Intn(8) == 0 {
				return runGenesisChild(r)
			}
			if r.C.Intn(6) == 0 {
				// the builder half: a block the builder emits satisfies the same header rules (gaps for empty and
				// non-empty blocks) that verification enforces
				return buildScenario(r, "C11", 0.2)
			}
			return runBlock(r, focus{prop: "C11", headerFaults: 0.6, txFaults: 0.02, permFaults: 0.05, failOps: 0.05, tightUnits: 0.0, bigCosts: 0.0, dupTx: 0.02, maxTxs: 3})
		}})
}

func init() {
	register(&simk.Prop{ID: "C07", Level: "exploration",
		Rule: e2Rule + "; focus: every transaction signs a maximum fee in {0, 1, fee-1, fee, fee+1, max} relative to the fee it is charged at the block's unit prices; three parties are judged: block verification (Processor.Execute), the builder (BuildBlock from a mempool holding such a tx) and mempool admission (PreExecutor.PreExecute at the simulated current time)",
		Real: append([]string{"chain.PreExecutor", "chain.Builder"}, e2Real...), Stub: e2Stub,
		Exec: func(r *simk.Run) *simk.Violation {
			switch r.C.Intn(5) {
			case 0:
				return c07Admission(r)
			case 1:
				return c07Builder(r)
			case 2:
				// what the builder charges must be what verification charges: a transaction left out of a
				// full block must not have been charged at all
				return buildScenario(r, "C07", 0.8)
			}
			return runBlock(r, focus{prop: "C07", headerFaults: 0, txFaults: 0.02, permFaults: 0.05, failOps: 0.1, maxFeeFaults: 0.7, maxTxs: 4})
		}})
}

package e2

import (
	"bytes"
	"context"
	"encoding/binary"
	"fmt"
	"sort"
	"time"

	"github.com/ava-labs/avalanchego/ids"
	"github.com/ava-labs/avalanchego/trace"
	"github.com/ava-labs/avalanchego/utils/logging"
	"github.com/prometheus/client_golang/prometheus"

	"github.com/ava-labs/hypersdk/chain"
	"github.com/ava-labs/hypersdk/fees"
	"github.com/ava-labs/hypersdk/internal/mempool"
	"github.com/ava-labs/hypersdk/internal/workers"
	"github.com/ava-labs/hypersdk/state"
	"github.com/ava-labs/hypersdk/verifsim/simk"
)

func init() {
	register(&simk.Prop{ID: "C02", Level: "exploration",
		Rule: "seeded mempool contents (0..14 txs: valid, failing actions, weak permissions, expired / too-far-future / misaligned expiry, wrong chain id, too many actions, underfunded sponsor, oversized values, repeats of a parent-block transaction, conflicting key sets), tight per-dimension block unit limits and small TargetTxsSize in part of the runs, 1..8 execution cores; the real Builder.BuildBlock (stream loop, prefetch goroutine, executor tasks, restore goroutine) runs on merkledb under the seeded scheduler while a client task adds to the mempool; " +
			"the built block's bytes are parsed back and verified by a fresh Processor on the same parent: verification must succeed and reproduce root, per-tx results, unit prices and units consumed; no built transaction may remain in the mempool. non-trivial = the block contains >=1 tx and >=2 runnable tasks at some step; distinct = (mempool contents, rules, schedule) hashes",
		Real: append([]string{"chain.Builder.BuildBlock", "internal/mempool"}, e2Real...), Stub: e2Stub,
		Assumptions: []string{"mempool contents have valid signatures (admission verifies them before Add); everything else about a transaction may be wrong", "one build per run: a second StartStreaming before the asynchronous FinishStreaming of the previous build is outside this property (see DESIGN.md observations)"},
		Exec:        c02})
}

func c02(r *simk.Run) *simk.Violation { return buildScenario(r, "C02", 0.3) }

// buildScenario: one BuildBlock on a seeded mempool, re-verified from bytes by a fresh processor.
func buildScenario(r *simk.Run, prop string, tightP float64) *simk.Violation {
	c := r.C
	s := r.NewSim()
	s.KeepLog = simk.WantLog()
	// in 40% of the runs simulated time passes while the block is being built (a scheduler choice at
	// every step): the build may run over its target duration and over a second boundary
	if c.Bool(0.4) {
		s.ClockTask = true
		s.ClockSteps = []time.Duration{5 * time.Millisecond, 40 * time.Millisecond, 150 * time.Millisecond, 700 * time.Millisecond, 1100 * time.Millisecond}
	}
	var viol *simk.Violation
	fail := func(class, format string, a ...any) {
		if viol == nil {
			viol = &simk.Violation{Class: prop + "/" + class, Detail: fmt.Sprintf(format, a...)}
		}
	}
	var sample map[string]any
	nontrivial := false
	var mp *mempool.Mempool[*chain.Transaction]
	var builtIDs []ids.ID
	built := false
	bigRun := false

	s.Run(r.T, func() {
		ctx := context.Background()
		f := focus{bigCosts: 0.03}
		rules := genRules(c, f)
		nKeys := 1 + c.Intn(6)
		names := []byte{'a', 'a', 'b', 'c', 'd', 'e'}
		chunks := []uint16{1, 2, 1, 1, 2, 3}
		keysU := make([][]byte, nKeys)
		for i := range keysU {
			keysU[i] = simKey(names[i], chunks[i])
		}
		sp := sponsors()
		nSponsors := 1 + c.Intn(3)
		kv := map[string][]byte{}
		for i, k := range keysU {
			if c.Bool(0.5) {
				v := genValue(c, i)
				if len(v) > 60*int(chunks[i]) {
					v = v[:60*int(chunks[i])]
				}
				kv[string(k)] = v
			}
		}
		prices := fees.Dimensions{}
		for d := range prices {
			prices[d] = []uint64{1, 100, 3}[c.Intn(3)]
		}
		now := time.Now().UnixMilli()
		parentTS := now - int64([]int{5000, 100, 1000, 60000}[c.Intn(4)]) - rules.MinBlockGap
		parentHeight := uint64(c.Intn(5))
		var windows [fees.FeeDimensions][10]uint64
		feeState := FeeStateBytes(parentTS/1000, prices, windows, fees.Dimensions{})
		poor := -1
		if nSponsors > 1 && c.Bool(0.3) {
			poor = nSponsors - 1
		}
		for i := 0; i < nSponsors; i++ {
			b := uint64(1 << 50)
			if i == poor {
				b = uint64(c.Intn(2000))
			}
			kv[string(envBalKey(sp[i]))] = binary.BigEndian.AppendUint64(nil, b)
		}
		nonce := uint64(0)
		type gen struct {
			tx   *chain.Transaction
			note string
		}
		mk := func() (gen, error) {
			g := gen{}
			sponsor := c.Intn(nSponsors)
			nAct := 1 + c.Intn(3)
			if c.Bool(0.05) {
				nAct = int(rules.MaxActionsPerTx) + 1
				g.note += "too-many-actions "
			}
			if nAct > 17 {
				nAct = 17
			}
			var acts []chain.Action
			for a := 0; a < nAct; a++ {
				nonce++
				sa := &SimAction{Compute: uint64(c.Intn(4)), Start: -1, End: -1, Nonce: nonce}
				need := map[string]state.Permissions{}
				for o, nOps := 0, c.Intn(5); o < nOps; o++ {
					k := keysU[c.Intn(nKeys)]
					switch c.Weighted(4, 4, 2) {
					case 0:
						sa.Ops = append(sa.Ops, SimOp{Kind: "get", Key: k})
						need[string(k)] |= state.Read
					case 1:
						v := genValue(c, int(nonce)+o)
						if c.Bool(0.03) {
							v = bytes.Repeat([]byte{'x'}, 3000) // oversized for the key and for TargetTxsSize
							g.note += "oversized "
						}
						sa.Ops = append(sa.Ops, SimOp{Kind: "put", Key: k, Val: v})
						need[string(k)] |= state.Write | state.Allocate
					default:
						sa.Ops = append(sa.Ops, SimOp{Kind: "del", Key: k})
						need[string(k)] |= state.Write
					}
				}
				if c.Bool(0.12) {
					sa.Ops = append(sa.Ops, SimOp{Kind: "fail"})
				}
				var dk []string
				for k := range need {
					dk = append(dk, k)
				}
				sort.Strings(dk)
				for _, k := range dk {
					p := need[k]
					if c.Bool(0.1) {
						p = []state.Permissions{state.None, state.Read, state.Allocate, state.Write}[c.Intn(4)]
					}
					sa.Decl = append(sa.Decl, SimDecl{Key: []byte(k), Perm: p})
				}
				acts = append(acts, sa)
			}
			expiry := (now/1000 + 1 + int64(c.Intn(2))) * 1000
			if expiry > now+rules.ValidityWindow {
				expiry = (now + rules.ValidityWindow) / 1000 * 1000
			}
			chainID := rules.ChainID
			if c.Bool(0.2) {
				switch c.Intn(4) {
				case 0:
					expiry = (now/1000 - int64(c.Intn(2))) * 1000
					if expiry >= now {
						expiry -= 1000
					}
					g.note += "expired "
				case 1:
					expiry = ((now+rules.ValidityWindow)/1000 + 1 + int64(c.Intn(2))) * 1000
					g.note += "too-far-future "
				case 2:
					expiry += 1 + int64(c.Intn(998))
					g.note += "misaligned "
				default:
					chainID = ids.Empty.Prefix(1)
					g.note += "wrong-chain "
				}
			}
			td := chain.NewTxData(chain.Base{Timestamp: expiry, ChainID: chainID, MaxFee: ^uint64(0)}, acts)
			tx, err := td.Sign(sp[sponsor])
			if err != nil {
				return g, err
			}
			if sponsor == poor {
				g.note += "poor-sponsor "
			}
			g.tx = tx
			return g, nil
		}
		nTx := c.Intn(15)
		// big-mempool variant (4%): more transactions than one builder stream batch (256), so the builder
		// prefetches the next batch on its own goroutine while a client re-submits transactions it already
		// submitted (a gossip re-delivery)
		big := c.Bool(0.04)
		bigRun = big
		if big {
			nTx = 262 + c.Intn(100)
			s.MaxSteps = 1500000
			s.ClockTask = false
			for d := range rules.MaxBlockUnits {
				rules.MaxBlockUnits[d] = 1 << 40
			}
		}
		var gens []gen
		for i := 0; i < nTx; i++ {
			g, err := mk()
			if err != nil {
				fail("harness", "%v", err)
				return
			}
			gens = append(gens, g)
		}
		var parentTxs []*chain.Transaction
		if len(gens) > 0 && c.Bool(0.15) {
			j := c.Intn(len(gens))
			parentTxs = append(parentTxs, gens[j].tx)
			gens[j].note += "already-in-parent "
		}
		if !big && c.Bool(tightP) && len(gens) > 0 {
			// tight limits: computed from the generated txs' own units so that skip/stop paths fire
			d := c.Intn(fees.FeeDimensions)
			var us []uint64
			for _, g := range gens {
				decl := map[string]state.Permissions{}
				for _, a := range g.tx.Actions {
					for _, dd := range a.(*SimAction).Decl {
						decl[string(dd.Key)] |= dd.Perm
					}
				}
				decl[string(envBalKey(sp[0]))] |= state.Read | state.Write
				if u, ok := refUnits(rules, g.tx, decl); ok {
					us = append(us, u[d])
				}
			}
			if len(us) > 0 {
				lim := us[c.Intn(len(us))]*uint64(1+c.Intn(3)) + uint64(c.Intn(3))
				rules.MaxBlockUnits[d] = lim
				rules.WindowTargetUnits[d] = []uint64{lim / 2, lim * 2, 1 << 30}[c.Intn(3)]
			}
		}
		env, err := NewEnv(ctx, rules, now, parentHeight, parentTS, feeState, kv, parentTxs)
		if err != nil {
			fail("harness", "%v", err)
			return
		}
		mp = mempool.New[*chain.Transaction](trace.Noop, 64, 64)
		if big {
			mp = mempool.New[*chain.Transaction](trace.Noop, 4096, 4096)
		}
		var initial []*chain.Transaction
		var late []*chain.Transaction
		for _, g := range gens {
			if !big && c.Bool(0.15) {
				late = append(late, g.tx)
			} else {
				initial = append(initial, g.tx)
			}
		}
		mp.Add(ctx, initial)
		var resubmit [][]*chain.Transaction
		var resubmitGap []int
		if big {
			for g := 0; g < 5; g++ {
				var grp []*chain.Transaction
				for k := 0; k <= c.Intn(10); k++ {
					grp = append(grp, initial[c.Intn(len(initial))])
				}
				resubmit = append(resubmit, grp)
			}
			lo := 256 + c.Intn(len(initial)-258)
			resubmit = append(resubmit, initial[lo:min(len(initial), lo+6)])
			for range resubmit {
				resubmitGap = append(resubmitGap, c.Intn(1500))
			}
		}
		vw, err := env.ValidityWindow(ctx)
		if err != nil {
			fail("harness", "%v", err)
			return
		}
		metrics, _ := chain.NewMetrics(prometheus.NewRegistry())
		cfg := chain.Config{TargetBuildDuration: []time.Duration{time.Second, 100 * time.Millisecond}[c.Intn(2)], TransactionExecutionCores: 1 + c.Intn(8), StateFetchConcurrency: 1 + c.Intn(4), TargetTxsSize: []int{1 << 20, 1 << 20, 600, 1500}[c.Intn(4)]}
		builder := chain.NewBuilder(trace.Noop, env.RF, logging.NoLog{}, env.MM, env.BH, mp, vw, metrics, cfg)
		if len(late) > 0 {
			s.Go("client.add", 0, func() { mp.Add(ctx, late) })
		}
		if big {
			cfg.TargetBuildDuration = time.Hour
			cfg.TargetTxsSize = 1 << 26
			builder = chain.NewBuilder(trace.Noop, env.RF, logging.NoLog{}, env.MM, env.BH, mp, vw, metrics, cfg)
			s.Probe("big_mempool_build")
			s.Go("client.resubmit", 0, func() {
				for gi, grp := range resubmit {
					// the client is slow compared with the builder: it lets other tasks take a seeded number of
					// steps between two submissions, so that they land anywhere in the build
					for k := 0; k < resubmitGap[gi]; k++ {
						s.Yield("client.resubmit.wait", 0)
					}
					mp.Add(ctx, grp)
				}
			})
		}
		notes := make([]string, len(gens))
		for i, g := range gens {
			notes[i] = fmt.Sprintf("tx%d[%d actions] %s", i, len(g.tx.Actions), g.note)
		}
		sample = map[string]any{"mempool": notes, "cores": cfg.TransactionExecutionCores, "target_txs_size": cfg.TargetTxsSize, "max_block_units": rules.MaxBlockUnits, "late_adds": len(late)}
		r.Fingerprint("%v|%d|%d|%v|%d", notes, cfg.TransactionExecutionCores, cfg.TargetTxsSize, rules.MaxBlockUnits, len(late))

		parentOut := &chain.OutputBlock{ExecutionBlock: env.Parent, View: env.DB, ExecutionResults: &chain.ExecutionResults{}}
		eb, out, err := builder.BuildBlock(ctx, nil, parentOut)
		if err != nil {
			// not building is always allowed (e.g. nothing to include before the empty-block gap)
			sample["built"] = "no: " + err.Error()
			return
		}
		built = true
		for _, tx := range eb.StatelessBlock.Txs {
			builtIDs = append(builtIDs, tx.GetID())
		}
		sample["built"] = fmt.Sprintf("%d txs", len(builtIDs))
		if len(builtIDs) > 0 && s.MultiPicks > 0 {
			nontrivial = true
		}
		// re-verify from the block's bytes on the same parent
		parsed, err := chain.UnmarshalBlock(eb.GetBytes(), simParser{})
		if err != nil {
			fail("built-block-unparsable", "the built block does not parse: %v\nsample=%s", err, js(sample))
			return
		}
		if parsed.GetID() != eb.GetID() {
			fail("built-block-id", "parsed block id differs from the built block id")
			return
		}
		w := workers.NewParallel(1+c.Intn(4), 4)
		defer w.Stop()
		proc, err := env.Processor(ctx, w, chain.Config{TargetBuildDuration: time.Second, TransactionExecutionCores: 1 + c.Intn(8), StateFetchConcurrency: 1 + c.Intn(8), TargetTxsSize: 1 << 20})
		if err != nil {
			fail("harness", "%v", err)
			return
		}
		ver, err := proc.Execute(ctx, env.DB, chain.NewExecutionBlock(parsed), true)
		if err != nil {
			var ns []string
			for _, tx := range eb.StatelessBlock.Txs {
				for i, g := range gens {
					if g.tx.GetID() == tx.GetID() {
						ns = append(ns, notes[i])
					}
				}
			}
			fail("built-block-fails-verification", "verification of the built block on the same parent failed: %v\nblock txs: %v\nsample=%s", err, ns, js(sample))
			return
		}
		rb, e1 := out.View.GetMerkleRoot(ctx)
		rv, e2 := ver.View.GetMerkleRoot(ctx)
		if e1 != nil || e2 != nil || rb != rv {
			fail("root-diverges", "builder post-state root %s, verification computes %s (%v %v)\nsample=%s", rb, rv, e1, e2, js(sample))
			return
		}
		if out.ExecutionResults.UnitPrices != ver.ExecutionResults.UnitPrices {
			fail("unit-prices-diverge", "builder %v verifier %v", out.ExecutionResults.UnitPrices, ver.ExecutionResults.UnitPrices)
			return
		}
		if out.ExecutionResults.UnitsConsumed != ver.ExecutionResults.UnitsConsumed {
			fail("units-consumed-diverge", "builder %v verifier %v\nsample=%s", out.ExecutionResults.UnitsConsumed, ver.ExecutionResults.UnitsConsumed, js(sample))
			return
		}
		if len(out.ExecutionResults.Results) != len(ver.ExecutionResults.Results) {
			fail("results-diverge", "builder has %d results, verifier %d", len(out.ExecutionResults.Results), len(ver.ExecutionResults.Results))
			return
		}
		for i := range out.ExecutionResults.Results {
			a, b := out.ExecutionResults.Results[i], ver.ExecutionResults.Results[i]
			ab := a.Marshal()
			bb := b.Marshal()
			if !bytes.Equal(ab, bb) {
				fail("results-diverge", "result %d differs: builder success=%v units=%v fee=%d outputs=%q / verifier success=%v units=%v fee=%d outputs=%q\nsample=%s", i, a.Success, a.Units, a.Fee, a.Outputs, b.Success, b.Units, b.Fee, b.Outputs, js(sample))
				return
			}
		}
		for d := 0; d < fees.FeeDimensions; d++ {
			if out.ExecutionResults.UnitsConsumed[d] > rules.MaxBlockUnits[d] {
				fail("units-over-limit", "built block consumes %d > max %d in dimension %d", out.ExecutionResults.UnitsConsumed[d], rules.MaxBlockUnits[d], d)
				return
			}
		}
	})
	r.Sample(sample)
	if nontrivial {
		r.Nontrivial()
	}
	if v := s.Violation(); v != nil {
		return v
	}
	if viol != nil {
		return viol
	}
	if s.StepLimit {
		return nil
	}
	if s.Hung {
		return &simk.Violation{Class: prop + "/hang", Detail: fmt.Sprintf("block building / verification never returned: parked=[%s]\nsample=%s", s.HangInfo, js(sample))}
	}
	// after the run (the restore goroutine ran in the scheduler's epilogue): nothing that was built may still be pooled
	// (not in the big-mempool variant: there a client re-submits transactions while and after the block is
	// built, and a transaction re-submitted after the build finished is legitimately pooled again; keeping it
	// out is the job of admission and of the accept path, not of the mempool)
	if built && mp != nil && !bigRun {
		for _, id := range builtIDs {
			if mp.Has(context.Background(), id) {
				return &simk.Violation{Class: prop + "/built-tx-still-in-mempool", Detail: fmt.Sprintf("transaction %s is in the built block and still in the mempool after the build finished\nsample=%s", id, js(sample))}
			}
		}
	}
	return nil
}

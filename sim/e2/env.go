// Package e2 is the block-execution engine: chain.Processor.Execute and
// chain.Builder.BuildBlock on a real merkledb, driven by programmable actions,
// under the seeded scheduler, judged by an independent sequential interpreter.
package e2

import (
	"context"
	stded25519 "crypto/ed25519"
	"encoding/binary"
	"encoding/json"
	"errors"
	"fmt"
	"sort"
	"sync"
	"sync/atomic"
	"time"

	"github.com/ava-labs/avalanchego/database"
	"github.com/ava-labs/avalanchego/database/memdb"
	"github.com/ava-labs/avalanchego/ids"
	"github.com/ava-labs/avalanchego/trace"
	"github.com/ava-labs/avalanchego/utils/logging"
	"github.com/ava-labs/avalanchego/utils/maybe"
	"github.com/ava-labs/avalanchego/x/merkledb"
	"github.com/prometheus/client_golang/prometheus"

	"github.com/ava-labs/hypersdk/auth"
	"github.com/ava-labs/hypersdk/chain"
	"github.com/ava-labs/hypersdk/codec"
	"github.com/ava-labs/hypersdk/crypto/ed25519"
	"github.com/ava-labs/hypersdk/fees"
	"github.com/ava-labs/hypersdk/genesis"
	"github.com/ava-labs/hypersdk/internal/validitywindow"
	"github.com/ava-labs/hypersdk/internal/validitywindow/validitywindowtest"
	"github.com/ava-labs/hypersdk/internal/workers"
	"github.com/ava-labs/hypersdk/keys"
	"github.com/ava-labs/hypersdk/state"
	"github.com/ava-labs/hypersdk/state/balance"
	"github.com/ava-labs/hypersdk/state/metadata"

	internalfees "github.com/ava-labs/hypersdk/internal/fees"
)

// ---------------------------------------------------------------------------
// programmable action

const simActionID = 0

type SimOp struct {
	Kind string `json:"k"` // get | put | del | fail
	Key  []byte `json:"key,omitempty"`
	Val  []byte `json:"val,omitempty"`
}

type SimDecl struct {
	Key  []byte            `json:"key"`
	Perm state.Permissions `json:"perm"`
}

type SimAction struct {
	Ops     []SimOp   `json:"ops"`
	Decl    []SimDecl `json:"decl"`
	Compute uint64    `json:"compute"`
	Start   int64     `json:"start"`
	End     int64     `json:"end"`
	Nonce   uint64    `json:"nonce"`
}

var errSimFail = errors.New("sim action failed on purpose")

func (a *SimAction) Bytes() []byte {
	b, err := json.Marshal(a)
	if err != nil {
		panic(err)
	}
	return append([]byte{simActionID}, b...)
}

func (a *SimAction) ComputeUnits(chain.Rules) uint64       { return a.Compute }
func (a *SimAction) ValidRange(chain.Rules) (int64, int64) { return a.Start, a.End }
func (*SimAction) GetTypeID() uint8                        { return simActionID }

func (a *SimAction) StateKeys(codec.Address, ids.ID) state.Keys {
	ks := state.Keys{}
	for _, d := range a.Decl {
		ks[string(d.Key)] |= d.Perm
	}
	if !SharedActionKeys.Load() {
		return ks
	}
	// an action type is free to hand out a retained key set (a static table, a cache): actions with the same
	// declaration then return the very same map, which callers must treat as read-only
	id := fmt.Sprintf("%v", a.Decl)
	actionKeyTable.mu.Lock()
	defer actionKeyTable.mu.Unlock()
	if got, ok := actionKeyTable.m[id]; ok {
		return got
	}
	actionKeyTable.m[id] = ks
	return ks
}

// SharedActionKeys switches SimAction.StateKeys to retained key sets (see there); ResetActionKeys empties
// the table (once per run).
var SharedActionKeys atomic.Bool

var actionKeyTable = struct {
	mu sync.Mutex
	m  map[string]state.Keys
}{m: map[string]state.Keys{}}

func ResetActionKeys(on bool) {
	actionKeyTable.mu.Lock()
	actionKeyTable.m = map[string]state.Keys{}
	actionKeyTable.mu.Unlock()
	SharedActionKeys.Store(on)
}

// Execute interprets the op list. The output records everything the action
// observed, so reads are visible in the transaction result.
func (a *SimAction) Execute(ctx context.Context, _ chain.Rules, mu state.Mutable, _ int64, _ codec.Address, _ ids.ID) ([]byte, error) {
	var out []byte
	for _, op := range a.Ops {
		switch op.Kind {
		case "get":
			v, err := mu.GetValue(ctx, op.Key)
			if errors.Is(err, database.ErrNotFound) {
				out = append(out, []byte("<absent>;")...)
				continue
			}
			if err != nil {
				return nil, err
			}
			out = append(out, v...)
			out = append(out, ';')
		case "put":
			if err := mu.Insert(ctx, op.Key, op.Val); err != nil {
				return nil, err
			}
		case "del":
			if err := mu.Remove(ctx, op.Key); err != nil {
				return nil, err
			}
		case "fail":
			return nil, errSimFail
		// try* ops swallow the error (an action is free to probe and carry on): what they
		// observed is recorded in the output, so a denied access that later succeeds is visible
		case "tryget":
			v, err := mu.GetValue(ctx, op.Key)
			switch {
			case errors.Is(err, database.ErrNotFound):
				out = append(out, []byte("<absent>;")...)
			case err != nil:
				out = append(out, []byte("<denied>;")...)
			default:
				out = append(out, v...)
				out = append(out, ';')
			}
		case "tryput":
			if err := mu.Insert(ctx, op.Key, op.Val); err != nil {
				out = append(out, []byte("<put-denied>;")...)
			} else {
				out = append(out, []byte("<put-ok>;")...)
			}
		case "trydel":
			if err := mu.Remove(ctx, op.Key); err != nil {
				out = append(out, []byte("<del-denied>;")...)
			} else {
				out = append(out, []byte("<del-ok>;")...)
			}
		}
	}
	return out, nil
}

type simParser struct{}

func (simParser) ParseAction(b []byte) (chain.Action, error) {
	if len(b) == 0 || b[0] != simActionID {
		return nil, fmt.Errorf("unknown action type")
	}
	a := &SimAction{}
	if err := json.Unmarshal(b[1:], a); err != nil {
		return nil, err
	}
	return a, nil
}

func (simParser) ParseAuth(b []byte) (chain.Auth, error) {
	if len(b) == 0 {
		return nil, fmt.Errorf("empty auth")
	}
	switch b[0] {
	case auth.ED25519ID:
		return auth.UnmarshalED25519(b)
	case auth.SECP256R1ID:
		return auth.UnmarshalSECP256R1(b)
	case auth.BLSID:
		return auth.UnmarshalBLS(b)
	}
	return nil, fmt.Errorf("unknown auth type %d", b[0])
}

// ---------------------------------------------------------------------------
// environment

var sponsorKeys struct {
	once sync.Once
	f    []*auth.ED25519Factory
}

func sponsors() []*auth.ED25519Factory {
	sponsorKeys.once.Do(func() {
		// fixed seeds: transaction IDs (and with them the hook keys the scheduler sorts by)
		// must be identical in every process for a tape to replay
		for i := 0; i < 4; i++ {
			seed := make([]byte, stded25519.SeedSize)
			for j := range seed {
				seed[j] = byte(i*37 + j + 1)
			}
			var p ed25519.PrivateKey
			copy(p[:], stded25519.NewKeyFromSeed(seed))
			sponsorKeys.f = append(sponsorKeys.f, auth.NewED25519Factory(p))
		}
	})
	return sponsorKeys.f
}

type Env struct {
	Rules   *genesis.Rules
	RF      chain.RuleFactory
	MM      metadata.MetadataManager
	BH      *balance.PrefixBalanceHandler
	BHx     chain.BalanceHandler // the balance handler handed to the real code (defaults to BH)
	DB      merkledb.MerkleDB
	Parent  *chain.ExecutionBlock
	Index   *validitywindowtest.MockChainIndex[*chain.Transaction]
	ChainID ids.ID
	Now     int64 // ms, simulated
	// parent state as plain map (what the reference interpreter starts from)
	State map[string][]byte
}

func simKey(name byte, chunks uint16) []byte {
	return keys.EncodeChunks([]byte{0x7f, name}, chunks)
}

// NewEnv creates a parent state (committed to a fresh in-memory merkledb) and the parent block.
func NewEnv(ctx context.Context, rules *genesis.Rules, now int64, parentHeight uint64, parentTS int64, feeState []byte, kv map[string][]byte, parentTxs []*chain.Transaction) (*Env, error) {
	e := &Env{
		Rules:   rules,
		RF:      &genesis.ImmutableRuleFactory{Rules: rules},
		MM:      metadata.NewDefaultManager(),
		BH:      balance.NewPrefixBalanceHandler([]byte{metadata.DefaultMinimumPrefix}),
		ChainID: rules.ChainID,
		Now:     now,
		State:   map[string][]byte{},
		Index:   &validitywindowtest.MockChainIndex[*chain.Transaction]{},
	}
	db, err := merkledb.New(ctx, memdb.New(), merkledb.Config{BranchFactor: merkledb.BranchFactor16, Tracer: trace.Noop})
	if err != nil {
		return nil, err
	}
	e.DB = db
	for k, v := range kv {
		e.State[k] = v
	}
	e.State[string(chain.HeightKey(e.MM.HeightPrefix()))] = binary.BigEndian.AppendUint64(nil, parentHeight)
	e.State[string(chain.TimestampKey(e.MM.TimestampPrefix()))] = binary.BigEndian.AppendUint64(nil, uint64(parentTS))
	e.State[string(chain.FeeKey(e.MM.FeePrefix()))] = feeState
	ops := map[string]maybe.Maybe[[]byte]{}
	for k, v := range e.State {
		ops[k] = maybe.Some(v)
	}
	view, err := db.NewView(ctx, merkledb.ViewChanges{MapOps: ops})
	if err != nil {
		return nil, err
	}
	if err := view.CommitToDB(ctx); err != nil {
		return nil, err
	}
	root, err := db.GetMerkleRoot(ctx)
	if err != nil {
		return nil, err
	}
	_ = root
	psb, err := chain.NewStatelessBlock(ids.Empty.Prefix(parentHeight+99), parentTS, parentHeight, parentTxs, ids.Empty, nil)
	if err != nil {
		return nil, err
	}
	e.Parent = chain.NewExecutionBlock(psb)
	e.Index.Set(e.Parent.GetID(), e.Parent)
	return e, nil
}

func (e *Env) ValidityWindow(ctx context.Context) (*validitywindow.TimeValidityWindow[*chain.Transaction], error) {
	return validitywindow.NewTimeValidityWindow(ctx, logging.NoLog{}, trace.Noop, e.Index, e.Parent, func(ts int64) int64 {
		return e.RF.GetRules(ts).GetValidityWindow()
	})
}

func (e *Env) Processor(ctx context.Context, w workers.Workers, cfg chain.Config) (*chain.Processor, error) {
	vw, err := e.ValidityWindow(ctx)
	if err != nil {
		return nil, err
	}
	metrics, err := chain.NewMetrics(prometheus.NewRegistry())
	if err != nil {
		return nil, err
	}
	return chain.NewProcessor(trace.Noop, logging.NoLog{}, e.RF, w, auth.DefaultEngines(), e.MM, e.handler(), vw, metrics, cfg), nil
}

func (e *Env) handler() chain.BalanceHandler {
	if e.BHx != nil {
		return e.BHx
	}
	return e.BH
}

// ParentRoot returns the merkle root of the parent state.
func (e *Env) ParentRoot(ctx context.Context) (ids.ID, error) { return e.DB.GetMerkleRoot(ctx) }

// Dump returns all key/values of a view applied on top of the parent db, as a map.
func Dump(ctx context.Context, parent map[string][]byte, view merkledb.View, universe [][]byte) (map[string][]byte, error) {
	out := map[string][]byte{}
	for _, k := range universe {
		v, err := view.GetValue(ctx, k)
		if errors.Is(err, database.ErrNotFound) {
			continue
		}
		if err != nil {
			return nil, err
		}
		out[string(k)] = v
	}
	return out, nil
}

// FeeStateBytes builds an encoded fee manager state.
func FeeStateBytes(lastSec int64, prices fees.Dimensions, windows [fees.FeeDimensions][10]uint64, lastConsumed fees.Dimensions) []byte {
	m := internalfees.NewManager(nil)
	raw := m.Bytes()
	binary.BigEndian.PutUint64(raw[0:8], uint64(lastSec))
	const dimLen = 8 + 80 + 8
	for d := 0; d < fees.FeeDimensions; d++ {
		st := 8 + dimLen*d
		binary.BigEndian.PutUint64(raw[st:], prices[d])
		for i := 0; i < 10; i++ {
			binary.BigEndian.PutUint64(raw[st+8+8*i:], windows[d][i])
		}
		binary.BigEndian.PutUint64(raw[st+8+80:], lastConsumed[d])
	}
	return raw
}

func sortedKeys(m map[string][]byte) []string {
	ks := make([]string, 0, len(m))
	for k := range m {
		ks = append(ks, k)
	}
	sort.Strings(ks)
	return ks
}

var _ = time.Now

// Exported for other engines.
var Parser chain.Parser = simParser{}

func Sponsors() []*auth.ED25519Factory { return sponsors() }

func SimKey(name byte, chunks uint16) []byte { return simKey(name, chunks) }

// memoBH is a balance handler that hands out one cached key set per sponsor (an implementation is free
// to do so): callers must treat the returned map as read-only.
type memoBH struct {
	chain.BalanceHandler
	mu    sync.Mutex
	cache map[codec.Address]state.Keys
}

func NewMemoBH(inner chain.BalanceHandler) chain.BalanceHandler {
	return &memoBH{BalanceHandler: inner, cache: map[codec.Address]state.Keys{}}
}

func (m *memoBH) SponsorStateKeys(addr codec.Address) state.Keys {
	m.mu.Lock()
	defer m.mu.Unlock()
	k, ok := m.cache[addr]
	if !ok {
		k = m.BalanceHandler.SponsorStateKeys(addr)
		m.cache[addr] = k
	}
	return k
}

// TimedRF is a rule factory with one scheduled rule change: [Before] is in force for timestamps below
// [At], [After] from [At] on (a network upgrade).
type TimedRF struct {
	At            int64
	Before, After *genesis.Rules
}

func (t *TimedRF) GetRules(ts int64) chain.Rules {
	if ts < t.At {
		return t.Before
	}
	return t.After
}

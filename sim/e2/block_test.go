package e2

import (
	"bytes"
	"context"
	"encoding/binary"
	"fmt"
	"math"
	"sort"
	"strings"
	"time"

	"github.com/ava-labs/avalanchego/ids"

	"github.com/ava-labs/hypersdk/chain"
	"github.com/ava-labs/hypersdk/fees"
	"github.com/ava-labs/hypersdk/genesis"
	"github.com/ava-labs/hypersdk/internal/verifhook"
	"github.com/ava-labs/hypersdk/internal/workers"
	"github.com/ava-labs/hypersdk/state"
	"github.com/ava-labs/hypersdk/verifsim/simk"

	internalfees "github.com/ava-labs/hypersdk/internal/fees"
)

// focus tunes the generator towards one property's clause; the oracle is the same.
type focus struct {
	prop         string
	headerFaults float64 // probability of a deliberately wrong header field
	txFaults     float64 // probability that a tx is made non-executable (expiry, chain id, actions, funds, signature)
	permFaults   float64 // probability that a declaration lacks a permission its ops need
	failOps      float64 // probability of an explicit failing op
	tightUnits   float64 // probability of block unit limits near the block's consumption
	bigCosts     float64 // probability of overflow-inducing unit costs
	dupTx        float64
	maxFeeFaults float64 // probability that a tx signs a max fee around (possibly below) the fee it will be charged
	maxTxs       int
}

type genTx struct {
	Sponsor int          `json:"sponsor"`
	Actions []*SimAction `json:"actions"`
	Expiry  string       `json:"expiry"`
	Note    string       `json:"note,omitempty"`
}

func permName(p state.Permissions) string { return p.String() }

// genRules draws a rule set.
func genRules(c *simk.Choices, f focus) *genesis.Rules {
	r := genesis.NewDefaultRules()
	r.ChainID = ids.Empty.Prefix(4242)
	r.NetworkID = 7
	r.MinBlockGap = []int64{100, 0, 1000}[c.Intn(3)]
	r.MinEmptyBlockGap = []int64{750, r.MinBlockGap, 2500}[c.Intn(3)]
	r.ValidityWindow = []int64{60000, 1000, 5000}[c.Intn(3)]
	r.MaxActionsPerTx = []uint8{16, 1, 2, 4}[c.Intn(4)]
	r.BaseComputeUnits = uint64(c.Intn(3))
	r.MinUnitPrice = fees.Dimensions{1, 1, 1, 1, 1}
	r.MaxBlockUnits = fees.Dimensions{1 << 40, 1 << 40, 1 << 40, 1 << 40, 1 << 40}
	r.WindowTargetUnits = fees.Dimensions{1 << 30, 1 << 30, 1 << 30, 1 << 30, 1 << 30}
	if c.Bool(0.5) {
		r.StorageKeyReadUnits = uint64(c.Intn(8))
		r.StorageValueReadUnits = uint64(c.Intn(4))
		r.StorageKeyAllocateUnits = uint64(c.Intn(30))
		r.StorageValueAllocateUnits = uint64(c.Intn(8))
		r.StorageKeyWriteUnits = uint64(c.Intn(15))
		r.StorageValueWriteUnits = uint64(c.Intn(5))
	}
	if c.Bool(f.bigCosts) {
		big := []uint64{1 << 62, 1 << 63, ^uint64(0), 1 << 48}[c.Intn(4)]
		switch c.Intn(4) {
		case 0:
			r.StorageValueReadUnits = big
		case 1:
			r.StorageKeyWriteUnits = big
		case 2:
			r.StorageValueAllocateUnits = big
		default:
			r.BaseComputeUnits = big
		}
		r.MaxBlockUnits = fees.Dimensions{^uint64(0), ^uint64(0), ^uint64(0), ^uint64(0), ^uint64(0)}
	}
	return r
}

type blockCase struct {
	rules      *genesis.Rules
	keys       [][]byte
	parentKV   map[string][]byte
	prices     fees.Dimensions
	txs        []genTx
	cores      int
	fetchConc  int
	sigWorkers int
	normalOp   bool
}

var valueLens = []int{0, 1, 3, 8, 30, 60, 70, 100, 130, 200}

func genValue(c *simk.Choices, tag int) []byte {
	n := valueLens[c.Intn(len(valueLens))]
	if c.Bool(0.6) {
		n = valueLens[c.Intn(5)]
	}
	v := make([]byte, n)
	for i := range v {
		v[i] = byte('a' + (tag+i)%26)
	}
	if n > 0 {
		v[0] = byte('A' + tag%26)
	}
	return v
}

// runBlock generates one block case, executes it with the real processor under the
// scheduler (and a second time under a different configuration), and compares with refexec.
func runBlock(r *simk.Run, f focus) *simk.Violation {
	c := r.C
	s := r.NewSim()
	s.KeepLog = simk.WantLog()
	P := f.prop
	var viol *simk.Violation
	fail := func(class, format string, a ...any) {
		if viol == nil {
			viol = &simk.Violation{Class: P + "/" + class, Detail: fmt.Sprintf(format, a...)}
		}
	}
	var sample map[string]any
	nontrivial := false

	s.Run(r.T, func() {
		ctx := context.Background()
		rules := genRules(c, f)
		// key universe: names a,a,b,c,d,e -> two keys differing only in the size suffix
		nKeys := 1 + c.Intn(6)
		names := []byte{'a', 'a', 'b', 'c', 'd', 'e'}
		chunks := []uint16{1, 2, 1, 1, 2, 3}
		keysU := make([][]byte, nKeys)
		for i := range keysU {
			keysU[i] = simKey(names[i], chunks[i])
		}
		sp := sponsors()
		nSponsors := 1 + c.Intn(3)
		// adversarial "slow read" policy in a fifth of the runs: the fetch of one key of the universe only
		// proceeds when nothing else can run, so transactions that share the key with an earlier
		// transaction reach their reads while the fetch is still in flight
		// workload-mix knob: in a tenth of the runs almost every operation is a read, so transactions of
		// different sponsors share keys without conflicting (only then can one overtake another's reads)
		readMostly := c.Bool(0.1)
		if readMostly && nSponsors < 2 {
			nSponsors = 2
		}
		slowIdx := c.Intn(nKeys)
		if c.Bool(0.2) || readMostly {
			slow := verifhook.H(string(keysU[slowIdx]))
			s.StarveFn = func(site string, key uint64) bool {
				if key == slow && (site == "fetcher.worker.task" || site == "fetcher.set") {
					s.Probe("slow_read_held_back")
					return true
				}
				return false
			}
		}
		kv := map[string][]byte{}
		for i, k := range keysU {
			if c.Bool(0.5) {
				v := genValue(c, i)
				if len(v) > 60*int(chunks[i]) {
					v = v[:60*int(chunks[i])]
				}
				kv[string(k)] = v
			}
		}
		prices := fees.Dimensions{}
		for d := range prices {
			prices[d] = []uint64{1, 100, 0, 3, 1 << 20}[c.Weighted(4, 3, 1, 2, 1)]
		}
		for d := range prices {
			if prices[d] < rules.MinUnitPrice[d] && c.Bool(0.7) {
				prices[d] = rules.MinUnitPrice[d]
			}
		}
		if c.Bool(0.2) {
			rules.MinUnitPrice = fees.Dimensions{}
		}

		now := time.Now().UnixMilli()
		parentTS := now - int64([]int{5000, 100, 1000, 0, 60000}[c.Intn(5)])
		parentHeight := uint64(c.Intn(5))
		var windows [fees.FeeDimensions][10]uint64
		feeState := FeeStateBytes(parentTS/1000, prices, windows, fees.Dimensions{})

		// block timestamp
		blkTS := parentTS + rules.MinBlockGap + int64(c.Intn(3))*500
		if blkTS > now+900 {
			blkTS = now
		}
		if blkTS < parentTS+rules.MinBlockGap {
			blkTS = parentTS + rules.MinBlockGap
		}
		hdrNote := ""
		childPrices := internalfees.NewManager(append([]byte{}, feeState...)).ComputeNext(blkTS, rules).UnitPrices()

		// transactions
		nTx := c.Intn(f.maxTxs + 1)
		gts := make([]genTx, 0, nTx)
		var txs []*chain.Transaction
		balances := make([]uint64, len(sp))
		for i := 0; i < nSponsors; i++ {
			balances[i] = 1 << 50
		}
		nonce := uint64(0)
		// directed shape in a few read-mostly runs: a transaction whose every key was already requested by
		// earlier, non-conflicting transactions (forceSponsor/forceGet steer the next generated transaction)
		forceSponsor, forceGet := -1, []byte(nil)
		forcePut := false // the forced operation is a write of forceGet instead of a read
		mkTx := func() (*chain.Transaction, genTx, error) {
			g := genTx{Sponsor: c.Intn(nSponsors)}
			if forceSponsor >= 0 {
				g.Sponsor = forceSponsor
			}
			nAct := 1 + c.Intn(3)
			if forceGet != nil {
				nAct = 1
			}
			if c.Bool(0.1) {
				nAct = 1 + c.Intn(int(min(rules.MaxActionsPerTx, 6)))
			}
			if c.Bool(f.txFaults * 0.3) {
				nAct = int(rules.MaxActionsPerTx) + 1
				g.Note += "too-many-actions "
			}
			if nAct > 17 {
				nAct = 17
			}
			if c.Bool(f.txFaults * 0.06) {
				// far beyond the limit (counts that would wrap a narrow integer)
				nAct = []int{255, 256, 257, 272, 512}[c.Intn(5)] + c.Intn(2)*int(rules.MaxActionsPerTx)
				g.Note += fmt.Sprintf("%d-actions ", nAct)
			}
			var acts []chain.Action
			for a := 0; a < nAct; a++ {
				nonce++
				sa := &SimAction{Compute: uint64(c.Intn(4)), Start: -1, End: -1, Nonce: nonce}
				need := map[string]state.Permissions{}
				nOps := c.Intn(5)
				if nAct > 17 {
					nOps = 0
				}
				if forceGet != nil {
					nOps = 0
					if forcePut {
						sa.Ops = append(sa.Ops, SimOp{Kind: "put", Key: forceGet, Val: genValue(c, int(nonce))})
						need[string(forceGet)] |= state.Write | state.Allocate
					} else {
						sa.Ops = append(sa.Ops, SimOp{Kind: "get", Key: forceGet})
						need[string(forceGet)] |= state.Read
					}
				}
				for o := 0; o < nOps; o++ {
					k := keysU[c.Intn(nKeys)]
					wGet, wPut, wDel := 4, 4, 2
					if readMostly {
						wGet, wPut, wDel = 12, 1, 1
					}
					switch c.Weighted(wGet, wPut, wDel, 0) {
					case 0:
						sa.Ops = append(sa.Ops, SimOp{Kind: "get", Key: k})
						need[string(k)] |= state.Read
					case 1:
						sa.Ops = append(sa.Ops, SimOp{Kind: "put", Key: k, Val: genValue(c, int(nonce)+o)})
						need[string(k)] |= state.Write | state.Allocate
					case 2:
						sa.Ops = append(sa.Ops, SimOp{Kind: "del", Key: k})
						need[string(k)] |= state.Write
					}
				}
				// error-swallowing probes: touch a key (often one the action has no right to), carry on, touch it again
				if c.Bool(f.permFaults*0.5 + 0.05) {
					k := keysU[c.Intn(nKeys)]
					kind := []string{"tryget", "tryput", "trydel"}[c.Intn(3)]
					probe := SimOp{Kind: kind, Key: k}
					if kind == "tryput" {
						probe.Val = genValue(c, int(nonce))
					}
					pos := c.Intn(len(sa.Ops) + 1)
					ops := append([]SimOp{}, sa.Ops[:pos]...)
					ops = append(ops, probe)
					ops = append(ops, sa.Ops[pos:]...)
					again := SimOp{Kind: []string{"tryget", "tryput", "trydel", kind}[c.Intn(4)], Key: k}
					if again.Kind == "tryput" {
						again.Val = genValue(c, int(nonce)+1)
					}
					sa.Ops = append(ops, again)
				}
				if c.Bool(f.failOps) {
					pos := c.Intn(len(sa.Ops) + 1)
					ops := append([]SimOp{}, sa.Ops[:pos]...)
					ops = append(ops, SimOp{Kind: "fail"})
					sa.Ops = append(ops, sa.Ops[pos:]...)
				}
				// declarations: what the ops need, possibly weakened, plus unrelated keys
				var dk []string
				for k := range need {
					dk = append(dk, k)
				}
				sort.Strings(dk)
				for _, k := range dk {
					p := need[k]
					if c.Bool(f.permFaults) {
						p = []state.Permissions{state.None, state.Read, state.Allocate, state.Write, state.Read | state.Write}[c.Intn(5)]
						if c.Bool(0.3) {
							continue // not declared at all
						}
					}
					sa.Decl = append(sa.Decl, SimDecl{Key: []byte(k), Perm: p})
				}
				if c.Bool(0.2) {
					sa.Decl = append(sa.Decl, SimDecl{Key: keysU[c.Intn(nKeys)], Perm: []state.Permissions{state.Read, state.All, state.None}[c.Intn(3)]})
				}
				if c.Bool(0.01 + f.bigCosts*0.4) {
					// keys declared with the largest chunk counts the suffix can express: their units must be
					// metered in full (sums beyond 16 bits), which usually makes the transaction too big
					for k := 0; k <= c.Intn(3); k++ {
						sa.Decl = append(sa.Decl, SimDecl{Key: simKey(byte('p'+k), []uint16{32768, 65535, 40000, 32767}[c.Intn(4)]), Perm: []state.Permissions{state.Read, state.All}[c.Intn(2)]})
					}
				}
				if nAct <= 17 && c.Bool(f.txFaults*0.2) {
					switch c.Intn(6) {
					case 3:
						sa.End = 0 // retired at time 0 (only -1 means "no bound")
						g.Note += "action-retired-at-zero "
					case 4:
						sa.Start, sa.End = 0, 0
						g.Note += "action-active-only-at-zero "
					case 5:
						sa.Start = 0 // active from time 0 on: active
					case 0:
						sa.Start = blkTS + 1
						g.Note += "action-not-yet-active "
					case 1:
						sa.End = blkTS - 1
						g.Note += "action-no-longer-active "
					default:
						sa.Start, sa.End = blkTS, blkTS // exactly at the boundaries: active
					}
				}
				acts = append(acts, sa)
				g.Actions = append(g.Actions, sa)
			}
			expiry := (blkTS/1000 + 1 + int64(c.Intn(2))) * 1000
			if expiry > blkTS+rules.ValidityWindow {
				expiry = (blkTS + rules.ValidityWindow) / 1000 * 1000
				if expiry < blkTS {
					expiry = (blkTS/1000 + 1) * 1000
				}
			}
			chainID := rules.ChainID
			if c.Bool(f.txFaults) {
				switch c.Intn(5) {
				case 0:
					expiry = (blkTS/1000)*1000 - 1000*int64(c.Intn(2))
					if expiry >= blkTS {
						expiry -= 1000
					}
					g.Note += "expired "
				case 1:
					expiry = ((blkTS+rules.ValidityWindow)/1000 + 1) * 1000
					g.Note += "too-far-future "
				case 2:
					expiry += 1 + int64(c.Intn(998))
					g.Note += "misaligned "
				case 3:
					chainID = ids.Empty.Prefix(1)
					g.Note += "wrong-chain "
				default:
					// boundary values that are still valid
					if c.Bool(0.5) && blkTS%1000 == 0 {
						expiry = blkTS
					} else if (blkTS+rules.ValidityWindow)%1000 == 0 {
						expiry = blkTS + rules.ValidityWindow
					}
				}
			}
			g.Expiry = fmt.Sprintf("block%+dms", expiry-blkTS)
			base := chain.Base{Timestamp: expiry, ChainID: chainID, MaxFee: ^uint64(0)}
			td := chain.NewTxData(base, acts)
			tx, err := td.Sign(sp[g.Sponsor])
			if err != nil {
				return nil, g, err
			}
			if c.Bool(f.maxFeeFaults) {
				// the max fee is fixed width, so the transaction's size (and units) do not depend on it
				decl := map[string]state.Permissions{}
				for _, a := range acts {
					for _, d := range a.(*SimAction).Decl {
						decl[string(d.Key)] |= d.Perm
					}
				}
				decl[string(envBalKey(sp[g.Sponsor]))] |= state.Read | state.Write
				if u, ok := refUnits(rules, tx, decl); ok {
					if fee, ok := refFee(childPrices, u); ok {
						mode := c.Intn(6)
						if r.Avoid && mode < 3 {
							mode = 3 + c.Intn(3)
						}
						switch mode {
						case 0:
							base.MaxFee = 0
						case 1:
							base.MaxFee = 1
						case 2:
							if fee > 0 {
								base.MaxFee = fee - 1
							}
						case 3:
							base.MaxFee = fee
						case 4:
							base.MaxFee = fee + 1
						}
						g.Note += fmt.Sprintf("maxfee=fee%+d ", int64(base.MaxFee-fee))
						td = chain.NewTxData(base, acts)
						if tx, err = td.Sign(sp[g.Sponsor]); err != nil {
							return nil, g, err
						}
					}
				}
			}
			if c.Bool(f.txFaults * 0.3) {
				// signature over other bytes
				other := chain.NewTxData(chain.Base{Timestamp: expiry + 1000, ChainID: chainID, MaxFee: 1}, acts)
				bad, err := sp[g.Sponsor].Sign(other.UnsignedBytes())
				if err != nil {
					return nil, g, err
				}
				tx, err = chain.NewTransaction(base, acts, bad)
				if err != nil {
					return nil, g, err
				}
				g.Note += "bad-signature "
			}
			return tx, g, nil
		}
		shape := readMostly && nKeys >= 2 && c.Bool(0.5)
		// second shape: a first toucher, two readers and then a writer of one key, all of different
		// sponsors, so that only the key orders them (readers of a finished first toucher vs a later writer)
		shape2 := readMostly && !shape && nSponsors == 3 && c.Bool(0.6)
		if shape2 {
			shape = false
			s.StarveFn = nil // here the first toucher has to finish early, while later transactions are still being enqueued
			if nTx < 4 {
				nTx = 4
			}
		}
		if shape && nTx < 3 {
			nTx = 3
		}
		shape2At := 0
		if shape2 {
			shape2At = c.Intn(nTx - 3)
			if c.Bool(0.7) {
				// the first reader is the slowest task of the block: it starts executing only when nothing else
				// can run, so everything ordered after it only by the shared key has every chance to overtake it
				r1 := uint64(shape2At + 1)
				s.StarveFn = func(site string, key uint64) bool {
					if site == "executor.work" && key == r1 {
						s.Probe("slow_first_reader_held_back")
						return true
					}
					return false
				}
			}
		}
		shapeAt := 0
		if shape {
			shapeAt = c.Intn(nTx - 2)
		}
		for i := 0; i < nTx; i++ {
			forceSponsor, forceGet, forcePut = -1, nil, false
			if shape2 && i >= shape2At && i < shape2At+4 {
				k := i - shape2At
				forceSponsor, forceGet, forcePut = []int{0, 1, 2, 0}[k], keysU[slowIdx], k == 3
			}
			if shape && i >= shapeAt && i < shapeAt+3 {
				// sponsor 1 reads another key, sponsor 0 reads the slow key, sponsor 1 reads the slow key
				switch i - shapeAt {
				case 0:
					forceSponsor, forceGet = 1, keysU[(slowIdx+1)%nKeys]
				case 1:
					forceSponsor, forceGet = 0, keysU[slowIdx]
				case 2:
					forceSponsor, forceGet = 1, keysU[slowIdx]
				}
			}
			if len(txs) > 0 && c.Bool(f.dupTx) {
				j := c.Intn(len(txs))
				txs = append(txs, txs[j])
				g := gts[j]
				g.Note += "repeat-of-earlier "
				gts = append(gts, g)
				continue
			}
			tx, g, err := mkTx()
			if err != nil {
				fail("harness", "tx generation: %v", err)
				return
			}
			txs = append(txs, tx)
			gts = append(gts, g)
		}
		// the parent block may already contain a tx that the child repeats
		var parentTxs []*chain.Transaction
		if len(txs) > 0 && c.Bool(f.dupTx) {
			parentTxs = append(parentTxs, txs[c.Intn(len(txs))])
			hdrNote += "child-repeats-parent-tx "
		}
		// balances: mostly ample, sometimes exactly the fees or one short
		balMode := c.Weighted(8, 1, 1, 1)
		memoKeys := c.Bool(0.3) // the balance handler hands out one cached sponsor key set (read-only by contract)
		ResetActionKeys(c.Bool(0.3))
		defer ResetActionKeys(false)
		for i := 0; i < nSponsors; i++ {
			kv[string(envBalKey(sp[i]))] = binary.BigEndian.AppendUint64(nil, balances[i])
		}
		env, err := NewEnv(ctx, rules, now, parentHeight, parentTS, feeState, kv, parentTxs)
		if err != nil {
			fail("harness", "env: %v", err)
			return
		}
		if balMode != 0 && len(txs) > 0 {
			// recompute with exact fees for sponsor 0
			var tot uint64
			okAll := true
			for i, tx := range txs {
				if gts[i].Sponsor != 0 {
					continue
				}
				decl := map[string]state.Permissions{}
				for _, a := range tx.Actions {
					for _, d := range a.(*SimAction).Decl {
						decl[string(d.Key)] |= d.Perm
					}
				}
				decl[string(env.BH.BalanceKey(tx.Auth.Sponsor()))] |= state.Read | state.Write
				u, ok := refUnits(rules, tx, decl)
				if !ok {
					okAll = false
					break
				}
				fe, ok := refFee(childPrices, u)
				if !ok || tot+fe < tot {
					okAll = false
					break
				}
				tot += fe
			}
			if okAll {
				nb := tot
				switch balMode {
				case 2:
					if nb > 0 {
						nb--
					}
				case 3:
					nb = 0
				}
				k := string(env.BH.BalanceKey(sp[0].Address()))
				if balMode == 3 && c.Bool(0.5) {
					delete(kv, k)
				} else {
					kv[k] = binary.BigEndian.AppendUint64(nil, nb)
				}
				env, err = NewEnv(ctx, rules, now, parentHeight, parentTS, feeState, kv, parentTxs)
				if err != nil {
					fail("harness", "env: %v", err)
					return
				}
				hdrNote += fmt.Sprintf("sponsor0-balance-mode-%d ", balMode)
			}
		}
		// tight unit limits
		if c.Bool(f.tightUnits) && len(txs) > 0 {
			var sum fees.Dimensions
			ok := true
			for _, tx := range txs {
				decl := map[string]state.Permissions{}
				for _, a := range tx.Actions {
					for _, d := range a.(*SimAction).Decl {
						decl[string(d.Key)] |= d.Perm
					}
				}
				decl[string(env.BH.BalanceKey(tx.Auth.Sponsor()))] |= state.Read | state.Write
				u, o := refUnits(rules, tx, decl)
				if !o {
					ok = false
					break
				}
				for d := range sum {
					sum[d] += u[d]
				}
			}
			if ok {
				d := c.Intn(fees.FeeDimensions)
				switch c.Intn(3) {
				case 0:
					rules.MaxBlockUnits[d] = sum[d]
				case 1:
					if sum[d] > 0 {
						rules.MaxBlockUnits[d] = sum[d] - 1
					}
				default:
					rules.MaxBlockUnits[d] = sum[d] + 1
				}
				hdrNote += fmt.Sprintf("tight-units-dim%d ", d)
			}
		}
		root, err := env.ParentRoot(ctx)
		if err != nil {
			fail("harness", "root: %v", err)
			return
		}
		height := parentHeight + 1
		stateRoot := root
		if len(txs) == 0 && blkTS < parentTS+rules.MinEmptyBlockGap && c.Bool(0.7) {
			blkTS = parentTS + rules.MinEmptyBlockGap
			if blkTS > now+1000 {
				hdrNote += "empty-block-gap-vs-future-bound "
			}
		}
		if c.Bool(f.headerFaults) {
			switch c.Intn(7) {
			case 6:
				// the header timestamp is a signed field that parsing does not range-check
				blkTS = []int64{-1, -1000, -(1 << 62), math.MinInt64, math.MinInt64 + 1}[c.Intn(5)]
				hdrNote += "timestamp-negative "
			case 0:
				height = parentHeight + uint64(c.Intn(3))*2 // parent, parent+2, parent+4... or equal
				hdrNote += "wrong-height "
			case 1:
				blkTS = parentTS + rules.MinBlockGap - 1 - int64(c.Intn(2))*1000
				hdrNote += "timestamp-before-gap "
			case 2:
				blkTS = now + 1000 + 1 + int64(c.Intn(2))*5000
				if c.Bool(0.3) {
					// centuries ahead (differences that no longer fit a nanosecond duration)
					blkTS = now + []int64{9_300_000_000_000_000, 12_000_000_000_000_000, 1 << 62, 3_600_000, 3_155_760_000_000}[c.Intn(5)]
				}
				hdrNote += "timestamp-beyond-future-bound "
			case 3:
				blkTS = now + 1000
				hdrNote += "timestamp-at-future-bound "
			case 4:
				stateRoot = ids.Empty.Prefix(uint64(c.Intn(100)))
				hdrNote += "wrong-state-root "
			default:
				if len(txs) == 0 {
					blkTS = parentTS + rules.MinEmptyBlockGap - 1
					hdrNote += "empty-block-before-empty-gap "
				}
			}
		}
		// (the txs were generated relative to the earlier blkTS; a moved timestamp simply makes
		// some of them non-executable, which the reference judges the same way)
		childPrices = internalfees.NewManager(append([]byte{}, feeState...)).ComputeNext(blkTS, rules).UnitPrices()
		sb, err := chain.NewStatelessBlock(env.Parent.GetID(), blkTS, height, txs, stateRoot, nil)
		if err != nil {
			fail("harness", "block: %v", err)
			return
		}
		// some transactions were looked at earlier under other rules (mempool admission before a rule
		// change at an upgrade timestamp): nothing computed then may leak into this block's execution
		if c.Bool(0.2) {
			alt := *rules
			alt.StorageKeyReadUnits += 7
			alt.StorageValueWriteUnits += 3
			alt.BaseComputeUnits += 50
			for _, tx := range txs {
				if c.Bool(0.5) {
					_, _ = tx.Units(env.handler(), &alt)
				}
			}
			hdrNote += "txs-seen-under-earlier-rules "
		}
		normalOp := !c.Bool(0.15)
		upgradeAt := int64(0)
		var upgradeGaps [2]int64
		if blkTS > 0 && blkTS < now && c.Bool(0.1+f.headerFaults*0.3) {
			upgradeAt = blkTS + 1 + int64(c.Intn(int(now-blkTS)))
			upgradeGaps = [][2]int64{{0, 0}, {1, 1}, {rules.MinBlockGap * 50, rules.MinEmptyBlockGap * 50}}[c.Intn(3)]
			hdrNote += "rule-change-after-block-timestamp "
		}
		cfgA := chain.Config{TargetBuildDuration: time.Second, TransactionExecutionCores: 1 + c.Intn(8), StateFetchConcurrency: 1 + c.Intn(8), TargetTxsSize: 1 << 20}
		sigA := 1 + c.Intn(6)
		sample = map[string]any{"txs": gts, "header": hdrNote, "cores": cfgA.TransactionExecutionCores, "fetch": cfgA.StateFetchConcurrency, "sig_workers": sigA,
			"normal_op": normalOp, "block_ts_minus_parent": blkTS - parentTS, "prices": childPrices}
		r.Fingerprint("%s|%s|%d|%d|%d|%v|%d", js(gts), hdrNote, cfgA.TransactionExecutionCores, cfgA.StateFetchConcurrency, sigA, normalOp, blkTS-parentTS)

		// ---- reference
		seen := map[ids.ID]int64{}
		for _, tx := range parentTxs {
			seen[tx.GetID()] = parentTS
		}
		ref := RefExecute(env, rules, RefParent{Height: parentHeight, Timestamp: parentTS, Root: root, Prices: childPrices, State: env.State, SeenTxs: seen},
			RefBlock{Height: height, Timestamp: blkTS, Txs: txs, StateRoot: stateRoot}, time.Now().UnixMilli(), normalOp, 1000)
		anySigBad := false
		for _, tx := range txs {
			if tx.VerifyAuth(ctx) != nil {
				anySigBad = true
			}
		}
		if ref.Valid && anySigBad {
			ref.Valid = false
			ref.Why = "a transaction signature does not verify"
		}

		// ---- real execution A (under the scheduler)
		exec := func(cfg chain.Config, sigW int) (*chain.OutputBlock, error) {
			// vm.go always hands the processor a parallel pool (workers.NewParallel(cores, 100)),
			// also for one core; SerialWorkers is not used with the asynchronous AuthBatch
			w := workers.NewParallel(sigW, 4)
			defer w.Stop()
			if memoKeys && env.BHx == nil {
				env.BHx = NewMemoBH(env.handler())
			}
			if upgradeAt != 0 {
				// a rule change scheduled between the block's timestamp and the verifier's clock: the block is
				// judged by the rules in force at ITS timestamp
				after := *rules
				after.MinBlockGap, after.MinEmptyBlockGap = upgradeGaps[0], upgradeGaps[1]
				env.RF = &TimedRF{At: upgradeAt, Before: rules, After: &after}
			}
			proc, err := env.Processor(ctx, w, cfg)
			if err != nil {
				return nil, err
			}
			return proc.Execute(ctx, env.DB, chain.NewExecutionBlock(sb), normalOp)
		}
		outA, errA := exec(cfgA, sigA)
		if len(txs) >= 2 && s.MultiPicks > 0 {
			nontrivial = true
		}
		if (errA == nil) != ref.Valid {
			if ref.Valid {
				fail("valid-block-rejected", "the reference executes the block but Execute failed: %v\nsample=%s", errA, js(sample))
			} else if strings.Contains(ref.Why, "exceeds its max fee") {
				fail("block-charging-more-than-max-fee-accepted", "Execute accepted a block in which a transaction is charged more than the maximum fee it signed (%s)\nsample=%s", ref.Why, js(sample))
			} else {
				fail("invalid-block-accepted", "Execute accepted a block the reference rejects (%s)\nsample=%s", ref.Why, js(sample))
			}
			return
		}
		// ---- real execution B: another configuration must agree exactly
		if c.Bool(0.5) {
			cfgB := chain.Config{TargetBuildDuration: time.Second, TransactionExecutionCores: 1 + c.Intn(8), StateFetchConcurrency: 1 + c.Intn(8), TargetTxsSize: 1 << 20}
			outB, errB := exec(cfgB, 1+c.Intn(6))
			if (errA == nil) != (errB == nil) {
				fail("config-dependent-verdict", "execution with cores=%d/fetch=%d gave err=%v, with cores=%d/fetch=%d err=%v\nsample=%s",
					cfgA.TransactionExecutionCores, cfgA.StateFetchConcurrency, errA, cfgB.TransactionExecutionCores, cfgB.StateFetchConcurrency, errB, js(sample))
				return
			}
			if errA == nil {
				ra, e1 := outA.View.GetMerkleRoot(ctx)
				rb, e2 := outB.View.GetMerkleRoot(ctx)
				if e1 != nil || e2 != nil || ra != rb {
					fail("config-dependent-state", "post-state roots differ between two executions of the same block (%s vs %s; %v %v)\nsample=%s", ra, rb, e1, e2, js(sample))
					return
				}
			}
		}
		if errA != nil {
			return
		}
		// ---- compare with the reference
		if len(outA.ExecutionResults.Results) != len(ref.Results) {
			fail("results-count", "%d results for %d transactions", len(outA.ExecutionResults.Results), len(ref.Results))
			return
		}
		for i, got := range outA.ExecutionResults.Results {
			want := ref.Results[i]
			if got == nil {
				fail("result-missing", "no result for tx %d", i)
				return
			}
			if got.Success != want.Success {
				fail(resultClass(P, want.Success), "tx %d: success=%v, reference says %v (error %q)\ntx=%s\nsample=%s", i, got.Success, want.Success, got.Error, js(gts[i]), js(sample))
				return
			}
			if !got.Success && len(got.Error) == 0 {
				fail("failure-without-error", "tx %d failed but its result carries no error", i)
				return
			}
			if got.Units != want.Units {
				fail("units", "tx %d: units %v, reference computes %v from the declared keys\ntx=%s", i, got.Units, want.Units, js(gts[i]))
				return
			}
			if got.Fee != want.Fee {
				fail("fee", "tx %d: fee %d, reference %d (prices %v units %v)", i, got.Fee, want.Fee, childPrices, want.Units)
				return
			}
			if len(got.Outputs) != len(want.Outputs) {
				fail("outputs", "tx %d: %d action outputs, reference %d (success=%v)\ntx=%s", i, len(got.Outputs), len(want.Outputs), want.Success, js(gts[i]))
				return
			}
			for j := range got.Outputs {
				if !bytes.Equal(got.Outputs[j], want.Outputs[j]) {
					fail("observed-values", "tx %d action %d observed %q, sequential execution observes %q\ntx=%s\nsample=%s", i, j, got.Outputs[j], want.Outputs[j], js(gts[i]), js(sample))
					return
				}
			}
		}
		if outA.ExecutionResults.UnitsConsumed != ref.Consumed {
			fail("units-consumed", "block consumed %v, sum of transaction units is %v", outA.ExecutionResults.UnitsConsumed, ref.Consumed)
			return
		}
		if outA.ExecutionResults.UnitPrices != childPrices {
			fail("unit-prices", "block reports unit prices %v, fee state says %v", outA.ExecutionResults.UnitPrices, childPrices)
			return
		}
		for d := 0; d < fees.FeeDimensions; d++ {
			if ref.Consumed[d] > rules.MaxBlockUnits[d] {
				fail("units-over-limit", "dimension %d consumed %d > max %d", d, ref.Consumed[d], rules.MaxBlockUnits[d])
				return
			}
		}
		// ---- full post-state: commit and dump everything
		if err := outA.View.CommitToDB(ctx); err != nil {
			fail("harness", "commit: %v", err)
			return
		}
		got := map[string][]byte{}
		it := env.DB.NewIterator()
		for it.Next() {
			got[string(it.Key())] = append([]byte{}, it.Value()...)
		}
		it.Release()
		want := ref.Post
		want[string(chain.HeightKey(env.MM.HeightPrefix()))] = binary.BigEndian.AppendUint64(nil, height)
		want[string(chain.TimestampKey(env.MM.TimestampPrefix()))] = binary.BigEndian.AppendUint64(nil, uint64(blkTS))
		fm := internalfees.NewManager(append([]byte{}, feeState...)).ComputeNext(blkTS, rules)
		for d := fees.Dimension(0); d < fees.FeeDimensions; d++ {
			fm.SetLastConsumed(d, ref.Consumed[d])
		}
		want[string(chain.FeeKey(env.MM.FeePrefix()))] = fm.Bytes()
		for k, wv := range want {
			gv, ok := got[k]
			if !ok {
				fail(stateClass(P, k, ref, env), "post-state lacks key %x (reference value %q)\nsample=%s", k, wv, js(sample))
				return
			}
			if !bytes.Equal(gv, wv) {
				fail(stateClass(P, k, ref, env), "post-state key %x = %q, sequential execution gives %q\nsample=%s", k, gv, wv, js(sample))
				return
			}
		}
		for k, gv := range got {
			if _, ok := want[k]; !ok {
				fail(stateClass(P, k, ref, env), "post-state has key %x = %q which sequential execution does not produce\nsample=%s", k, gv, js(sample))
				return
			}
		}
	})
	r.Sample(sample)
	if nontrivial {
		r.Nontrivial()
	}
	if v := s.Violation(); v != nil {
		return v
	}
	if viol != nil {
		return viol
	}
	if s.StepLimit {
		return nil
	}
	if s.Hung {
		return &simk.Violation{Class: P + "/hang", Detail: fmt.Sprintf("block execution never returned: parked=[%s]\nsample=%s", s.HangInfo, js(sample))}
	}
	return nil
}

func resultClass(p string, wantSuccess bool) string {
	if wantSuccess {
		return "tx-failed-but-should-succeed"
	}
	return "tx-succeeded-but-should-fail"
}

func stateClass(p, k string, ref RefOutcome, env *Env) string {
	if !ref.Touched[k] {
		if k == string(chain.HeightKey(env.MM.HeightPrefix())) || k == string(chain.TimestampKey(env.MM.TimestampPrefix())) || k == string(chain.FeeKey(env.MM.FeePrefix())) {
			return "metadata-state"
		}
		return "undeclared-key-changed"
	}
	if len(k) > 0 && k[0] == 0x7f {
		return "post-state"
	}
	return "balance-state"
}

package e2

import (
	"context"
	"fmt"
	"time"

	"github.com/ava-labs/avalanchego/database/memdb"
	"github.com/ava-labs/avalanchego/trace"
	"github.com/ava-labs/avalanchego/utils/logging"
	"github.com/ava-labs/avalanchego/x/merkledb"
	"github.com/prometheus/client_golang/prometheus"

	"github.com/ava-labs/hypersdk/auth"
	"github.com/ava-labs/hypersdk/chain"
	"github.com/ava-labs/hypersdk/genesis"
	"github.com/ava-labs/hypersdk/internal/validitywindow"
	"github.com/ava-labs/hypersdk/internal/validitywindow/validitywindowtest"
	"github.com/ava-labs/hypersdk/internal/workers"
	"github.com/ava-labs/hypersdk/state/balance"
	"github.com/ava-labs/hypersdk/state/metadata"
	"github.com/ava-labs/hypersdk/verifsim/simk"
)

// runGenesisChild verifies children of the real genesis block (chain.NewGenesisCommit):
// the header clauses of C11 must also hold against the genesis block's own timestamp.
func runGenesisChild(r *simk.Run) *simk.Violation {
	c := r.C
	s := r.NewSim()
	s.KeepLog = simk.WantLog()
	s.Horizon = 40 * 365 * 24 * time.Hour // the scenario sleeps from the bubble's 2000-01-01 to after the 2023 genesis timestamp
	var viol *simk.Violation
	var sample map[string]any
	s.Run(r.T, func() {
		ctx := context.Background()
		rules := genRules(c, focus{})
		rf := &genesis.ImmutableRuleFactory{Rules: rules}
		mm := metadata.NewDefaultManager()
		bh := balance.NewPrefixBalanceHandler([]byte{metadata.DefaultMinimumPrefix})
		db, err := merkledb.New(ctx, memdb.New(), merkledb.Config{BranchFactor: merkledb.BranchFactor16, Tracer: trace.Noop})
		if err != nil {
			s.Violate("harness", "%v", err)
			return
		}
		g := genesis.NewDefaultGenesis([]*genesis.CustomAllocation{{Address: sponsors()[0].Address(), Balance: 1 << 40}})
		gblk, gview, err := chain.NewGenesisCommit(ctx, db, g, mm, bh, rf, trace.Noop, logging.NoLog{})
		if err != nil {
			s.Violate("harness", "%v", err)
			return
		}
		if err := gview.CommitToDB(ctx); err != nil {
			s.Violate("harness", "%v", err)
			return
		}
		genTS := gblk.GetTimestamp()
		// local time: some time after the genesis block's timestamp
		wake := time.UnixMilli(genTS).Add(time.Duration(1+c.Intn(5)) * time.Hour)
		time.Sleep(time.Until(wake))
		now := time.Now().UnixMilli()
		var ts int64
		mode := c.Intn(6)
		if r.Avoid && mode <= 1 {
			mode = 2 + c.Intn(4)
		}
		switch mode {
		case 0:
			ts = genTS - int64(1+c.Intn(100))*1000 // before the genesis block
		case 1:
			ts = genTS + rules.MinEmptyBlockGap - 1 // just inside the gap after the genesis block
		case 2:
			ts = genTS + rules.MinEmptyBlockGap
		case 3:
			ts = now
		case 4:
			ts = now + 1000
		default:
			ts = now + 1001
		}
		root, _ := db.GetMerkleRoot(ctx)
		sb, err := chain.NewStatelessBlock(gblk.GetID(), ts, 1, nil, root, nil)
		if err != nil {
			s.Violate("harness", "%v", err)
			return
		}
		idx := &validitywindowtest.MockChainIndex[*chain.Transaction]{}
		idx.Set(gblk.GetID(), gblk)
		vw, err := validitywindow.NewTimeValidityWindow(ctx, logging.NoLog{}, trace.Noop, idx, gblk, func(t int64) int64 { return rf.GetRules(t).GetValidityWindow() })
		if err != nil {
			s.Violate("harness", "%v", err)
			return
		}
		metrics, _ := chain.NewMetrics(prometheus.NewRegistry())
		w := workers.NewParallel(2, 4)
		defer w.Stop()
		proc := chain.NewProcessor(trace.Noop, logging.NoLog{}, rf, w, auth.DefaultEngines(), mm, bh, vw, metrics, chain.NewDefaultConfig())
		_, execErr := proc.Execute(ctx, db, chain.NewExecutionBlock(sb), true)
		wantValid := ts >= genTS+rules.MinEmptyBlockGap && ts <= now+1000
		sample = map[string]any{"parent": "genesis", "child_ts_minus_genesis_ts_ms": ts - genTS, "child_ts_minus_now_ms": ts - now, "min_empty_gap": rules.MinEmptyBlockGap, "accepted": execErr == nil}
		r.Fingerprint("genesis|%d|%d|%d", ts-genTS, ts-now, rules.MinEmptyBlockGap)
		switch {
		case execErr == nil && !wantValid && ts < genTS+rules.MinEmptyBlockGap:
			viol = &simk.Violation{Class: "C11/genesis-child-timestamp-before-genesis-block", Detail: fmt.Sprintf("an empty child of the genesis block with timestamp %d ms relative to the genesis block's timestamp (min empty gap %d) verified: timestamps decrease along the chain", ts-genTS, rules.MinEmptyBlockGap)}
		case execErr == nil && !wantValid:
			viol = &simk.Violation{Class: "C11/invalid-block-accepted", Detail: fmt.Sprintf("child of genesis at now%+dms accepted", ts-now)}
		case execErr != nil && wantValid:
			viol = &simk.Violation{Class: "C11/valid-block-rejected", Detail: fmt.Sprintf("child of genesis at genesis%+dms (now%+dms) rejected: %v", ts-genTS, ts-now, execErr)}
		}
	})
	r.Sample(sample)
	r.Nontrivial()
	if v := s.Violation(); v != nil {
		return v
	}
	if viol != nil {
		return viol
	}
	if s.Hung {
		return &simk.Violation{Class: "C11/hang", Detail: "verification of a genesis child never returned: " + s.HangInfo}
	}
	return nil
}

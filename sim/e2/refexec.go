package e2

import (
	"encoding/binary"
	"fmt"
	"math/big"

	"github.com/ava-labs/avalanchego/ids"

	"github.com/ava-labs/hypersdk/chain"
	"github.com/ava-labs/hypersdk/fees"
	"github.com/ava-labs/hypersdk/genesis"
	"github.com/ava-labs/hypersdk/state"
)

// refexec: an independent, sequential interpreter of a block over a plain map.
// It shares no code with chain.Processor, tstate, executor, fetcher or the fee
// manager; arithmetic is done with math/big.

var maxU64 = new(big.Int).SetUint64(^uint64(0))

type RefResult struct {
	Success bool
	Outputs [][]byte
	Units   fees.Dimensions
	Fee     uint64
}

type RefOutcome struct {
	Valid    bool
	Why      string // first reason the block is invalid
	Results  []RefResult
	Consumed fees.Dimensions
	Post     map[string][]byte // full expected post-state (without the metadata keys the block context rewrites)
	Touched  map[string]bool   // keys that may legitimately differ from the parent
}

type RefBlock struct {
	Height    uint64
	Timestamp int64
	Txs       []*chain.Transaction
	StateRoot ids.ID
}

type RefParent struct {
	Height    uint64
	Timestamp int64
	Root      ids.ID
	Prices    fees.Dimensions // unit prices in force for the child block (already advanced)
	State     map[string][]byte
	SeenTxs   map[ids.ID]int64 // ancestors' tx id -> block timestamp it was included at (within reach of the validity window walk)
}

func keyChunks(k string) (uint64, bool) {
	if len(k) < 2 {
		return 0, false
	}
	return uint64(binary.BigEndian.Uint16([]byte(k[len(k)-2:]))), true
}

func valueChunks(v []byte) uint64 {
	// a chunk is 64 bytes; the empty value has 0 chunks
	return uint64((len(v) + 63) / 64)
}

func refUnits(r *genesis.Rules, tx *chain.Transaction, declared map[string]state.Permissions) (fees.Dimensions, bool) {
	compute := new(big.Int).SetUint64(r.BaseComputeUnits)
	for _, a := range tx.Actions {
		compute.Add(compute, new(big.Int).SetUint64(a.ComputeUnits(r)))
	}
	compute.Add(compute, new(big.Int).SetUint64(tx.Auth.ComputeUnits(r)))
	reads, allocs, writes := new(big.Int), new(big.Int), new(big.Int)
	for k := range declared {
		ch, ok := keyChunks(k)
		if !ok {
			return fees.Dimensions{}, false
		}
		c := new(big.Int).SetUint64(ch)
		reads.Add(reads, new(big.Int).SetUint64(r.StorageKeyReadUnits))
		reads.Add(reads, new(big.Int).Mul(c, new(big.Int).SetUint64(r.StorageValueReadUnits)))
		allocs.Add(allocs, new(big.Int).SetUint64(r.StorageKeyAllocateUnits))
		allocs.Add(allocs, new(big.Int).Mul(c, new(big.Int).SetUint64(r.StorageValueAllocateUnits)))
		writes.Add(writes, new(big.Int).SetUint64(r.StorageKeyWriteUnits))
		writes.Add(writes, new(big.Int).Mul(c, new(big.Int).SetUint64(r.StorageValueWriteUnits)))
	}
	var d fees.Dimensions
	d[0] = uint64(len(tx.Bytes()))
	for i, v := range []*big.Int{compute, reads, allocs, writes} {
		if v.Cmp(maxU64) > 0 {
			return fees.Dimensions{}, false
		}
		d[i+1] = v.Uint64()
	}
	return d, true
}

func refFee(prices, units fees.Dimensions) (uint64, bool) {
	tot := new(big.Int)
	for i := 0; i < fees.FeeDimensions; i++ {
		tot.Add(tot, new(big.Int).Mul(new(big.Int).SetUint64(prices[i]), new(big.Int).SetUint64(units[i])))
	}
	if tot.Cmp(maxU64) > 0 {
		return 0, false
	}
	return tot.Uint64(), true
}

func hasPerm(declared map[string]state.Permissions, k string, want state.Permissions) bool {
	p, ok := declared[k]
	if !ok {
		return false
	}
	return p&want == want
}

// RefExecute runs the block on top of parent, sequentially, in block order.
func RefExecute(env *Env, r *genesis.Rules, parent RefParent, blk RefBlock, now int64, normalOp bool, futureBoundMs int64) RefOutcome {
	out := RefOutcome{Post: map[string][]byte{}, Touched: map[string]bool{}}
	invalid := func(f string, a ...any) RefOutcome {
		out.Valid = false
		out.Why = fmt.Sprintf(f, a...)
		return out
	}
	for k, v := range parent.State {
		out.Post[k] = v
	}
	// header clauses
	if blk.Timestamp > now+futureBoundMs {
		return invalid("timestamp %d more than the future bound ahead of local time %d", blk.Timestamp, now)
	}
	if blk.Height != parent.Height+1 {
		return invalid("height %d != parent height %d + 1", blk.Height, parent.Height)
	}
	if blk.Timestamp < parent.Timestamp+r.MinBlockGap {
		return invalid("timestamp %d < parent %d + min gap %d", blk.Timestamp, parent.Timestamp, r.MinBlockGap)
	}
	if len(blk.Txs) == 0 && blk.Timestamp < parent.Timestamp+r.MinEmptyBlockGap {
		return invalid("empty block timestamp %d < parent %d + min empty gap %d", blk.Timestamp, parent.Timestamp, r.MinEmptyBlockGap)
	}
	if blk.StateRoot != parent.Root {
		return invalid("state root does not match the parent's post-state root")
	}
	if normalOp {
		seen := map[ids.ID]bool{}
		for _, tx := range blk.Txs {
			if seen[tx.GetID()] {
				return invalid("transaction %s repeated within the block", tx.GetID())
			}
			seen[tx.GetID()] = true
			if ts, ok := parent.SeenTxs[tx.GetID()]; ok && ts >= blk.Timestamp-r.ValidityWindow {
				return invalid("transaction %s repeats an ancestor's transaction inside the validity window", tx.GetID())
			}
		}
	}
	var consumed [fees.FeeDimensions]*big.Int
	for i := range consumed {
		consumed[i] = new(big.Int)
	}
	for ti, tx := range blk.Txs {
		// declared keys = union over actions and the sponsor's keys
		declared := map[string]state.Permissions{}
		for _, a := range tx.Actions {
			sa := a.(*SimAction)
			for _, d := range sa.Decl {
				if len(d.Key) < 2 {
					return invalid("tx %d declares a malformed key", ti)
				}
				declared[string(d.Key)] |= d.Perm
			}
		}
		sponsor := tx.Auth.Sponsor()
		balKey := string(env.BH.BalanceKey(sponsor))
		declared[balKey] |= state.Read | state.Write
		for k := range declared {
			out.Touched[k] = true
		}
		units, ok := refUnits(r, tx, declared)
		if !ok {
			return invalid("tx %d: unit computation overflows", ti)
		}
		for d := 0; d < fees.FeeDimensions; d++ {
			consumed[d].Add(consumed[d], new(big.Int).SetUint64(units[d]))
			if consumed[d].Cmp(new(big.Int).SetUint64(r.MaxBlockUnits[d])) > 0 {
				return invalid("tx %d: block units exceed the maximum in dimension %d", ti, d)
			}
		}
		// validity interval, chain, action limits, activation
		if tx.Base.ChainID != r.ChainID {
			return invalid("tx %d: wrong chain id", ti)
		}
		exp := tx.Base.Timestamp
		if exp%1000 != 0 {
			return invalid("tx %d: expiry %d is not a whole second", ti, exp)
		}
		if exp < blk.Timestamp {
			return invalid("tx %d: expired (%d < %d)", ti, exp, blk.Timestamp)
		}
		if exp > blk.Timestamp+r.ValidityWindow {
			return invalid("tx %d: expiry %d too far in the future of %d (+%d)", ti, exp, blk.Timestamp, r.ValidityWindow)
		}
		if len(tx.Actions) > int(r.MaxActionsPerTx) {
			return invalid("tx %d: too many actions", ti)
		}
		for ai, a := range tx.Actions {
			st, en := a.ValidRange(r)
			if (st >= 0 && blk.Timestamp < st) || (en >= 0 && blk.Timestamp > en) {
				return invalid("tx %d action %d not activated at %d", ti, ai, blk.Timestamp)
			}
		}
		// fee
		fee, ok := refFee(parent.Prices, units)
		if !ok {
			return invalid("tx %d: fee overflows", ti)
		}
		if fee > tx.Base.MaxFee {
			return invalid("tx %d: fee %d exceeds its max fee %d", ti, fee, tx.Base.MaxFee)
		}
		balRaw, has := out.Post[balKey]
		var bal uint64
		if has {
			if len(balRaw) != 8 {
				return invalid("tx %d: sponsor balance unparsable", ti)
			}
			bal = binary.BigEndian.Uint64(balRaw)
		}
		if bal < fee {
			return invalid("tx %d: sponsor balance %d < fee %d", ti, bal, fee)
		}
		if !has {
			// nothing to deduct from: the balance key does not exist (fee must be 0 here)
			return invalid("tx %d: sponsor has no balance entry", ti)
		}
		out.Post[balKey] = binary.BigEndian.AppendUint64(nil, bal-fee)
		// actions on a scratch copy; all or nothing
		scratch := map[string][]byte{}
		deleted := map[string]bool{}
		get := func(k string) ([]byte, bool) {
			if deleted[k] {
				return nil, false
			}
			if v, ok := scratch[k]; ok {
				return v, true
			}
			v, ok := out.Post[k]
			return v, ok
		}
		res := RefResult{Success: true, Units: units, Fee: fee, Outputs: [][]byte{}}
	actions:
		for _, a := range tx.Actions {
			sa := a.(*SimAction)
			var obs []byte
			for _, op := range sa.Ops {
				k := string(op.Key)
				switch op.Kind {
				case "get":
					if !hasPerm(declared, k, state.Read) {
						res.Success = false
						break actions
					}
					if v, ok := get(k); ok {
						obs = append(obs, v...)
						obs = append(obs, ';')
					} else {
						obs = append(obs, []byte("<absent>;")...)
					}
				case "put":
					if !hasPerm(declared, k, state.Write) {
						res.Success = false
						break actions
					}
					ch, okc := keyChunks(k)
					if !okc || valueChunks(op.Val) > ch {
						res.Success = false
						break actions
					}
					if _, exists := get(k); !exists && !hasPerm(declared, k, state.Allocate) {
						res.Success = false
						break actions
					}
					scratch[k] = op.Val
					delete(deleted, k)
				case "del":
					if !hasPerm(declared, k, state.Write) {
						res.Success = false
						break actions
					}
					if _, exists := get(k); exists {
						deleted[k] = true
						delete(scratch, k)
					}
				case "fail":
					res.Success = false
					break actions
				case "tryget":
					if !hasPerm(declared, k, state.Read) {
						obs = append(obs, []byte("<denied>;")...)
					} else if v, ok := get(k); ok {
						obs = append(obs, v...)
						obs = append(obs, ';')
					} else {
						obs = append(obs, []byte("<absent>;")...)
					}
				case "tryput":
					ch, okc := keyChunks(k)
					_, exists := get(k)
					if !hasPerm(declared, k, state.Write) || !okc || valueChunks(op.Val) > ch || (!exists && !hasPerm(declared, k, state.Allocate)) {
						obs = append(obs, []byte("<put-denied>;")...)
					} else {
						scratch[k] = op.Val
						delete(deleted, k)
						obs = append(obs, []byte("<put-ok>;")...)
					}
				case "trydel":
					if !hasPerm(declared, k, state.Write) {
						obs = append(obs, []byte("<del-denied>;")...)
					} else {
						if _, exists := get(k); exists {
							deleted[k] = true
							delete(scratch, k)
						}
						obs = append(obs, []byte("<del-ok>;")...)
					}
				}
			}
			res.Outputs = append(res.Outputs, obs)
		}
		if res.Success {
			for k, v := range scratch {
				out.Post[k] = v
			}
			for k := range deleted {
				delete(out.Post, k)
			}
		}
		out.Results = append(out.Results, res)
	}
	for d := 0; d < fees.FeeDimensions; d++ {
		out.Consumed[d] = consumed[d].Uint64()
	}
	out.Valid = true
	return out
}

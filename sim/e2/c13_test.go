package e2

import (
	"bytes"
	"fmt"
	"math/big"
	"time"

	"github.com/ava-labs/hypersdk/fees"
	"github.com/ava-labs/hypersdk/genesis"
	"github.com/ava-labs/hypersdk/verifsim/simk"

	internalfees "github.com/ava-labs/hypersdk/internal/fees"
)

func init() {
	register(&simk.Prop{ID: "C13", Level: "exploration",
		Rule: "seeded block timelines on the simulated clock: a fee state (prices, 10-slot windows, last consumption over the full 64-bit range, biased to boundary values) is stepped 1..6 times through the real fee manager with elapsed block times from {0,1,9,10,11,12,20,25,3600 s,...} and random per-block consumption, under rules with targets/denominators/minimum prices from 1 to 2^64-1; every step is compared per dimension with an exact (math/big) reference of the fee-market rule, the encoded state must decode to itself, and a twin timeline with one window slot raised must never yield a lower price. " +
			"non-trivial = some dimension moved (price changed) or saturated; distinct = distinct (state, rules, timeline) hashes. This is the weakest claimed check: reach of extreme states depends on the generator.",
		Real: []string{"internal/fees.Manager (ComputeNext, computeNextPriceWindow, Bytes/NewManager, SetLastConsumed)", "internal/window (Roll, Update, Sum)"},
		Stub: []string{"clock (block timestamps advance on the bubble's fake clock)", "blocks (consumption per block is drawn, not executed; the block-level path is exercised by C01/C02)"},
		Exec: c13})
}

type refDim struct {
	price, last uint64
	win         [10]uint64
}

var two64 = new(big.Int).Lsh(big.NewInt(1), 64)

func satAdd(a, b uint64) uint64 {
	if a+b < a {
		return ^uint64(0)
	}
	return a + b
}

// refNext is the fee-market rule in exact arithmetic.
func refNext(d refDim, target, denom, minPrice, since uint64) (uint64, [10]uint64) {
	var w [10]uint64
	if since <= 10 {
		for i := 0; i+int(since) < 10; i++ {
			w[i] = d.win[i+int(since)]
		}
	}
	if since < 10 {
		slot := 9 - int(since)
		w[slot] = satAdd(w[slot], d.last)
	}
	var total uint64
	for _, x := range w {
		total = satAdd(total, x)
	}
	P := new(big.Int).SetUint64(d.price)
	next := new(big.Int).Set(P)
	T := new(big.Int).SetUint64(target)
	D := new(big.Int).SetUint64(denom)
	switch {
	case total > target:
		delta := new(big.Int).SetUint64(total - target)
		x := new(big.Int).Mul(P, delta)
		x.Div(x, T)
		x.Div(x, D)
		if x.Sign() == 0 {
			x.SetUint64(1)
		}
		next.Add(next, x)
		if next.Cmp(maxU64) > 0 {
			next.Set(maxU64)
		}
	case total < target:
		delta := new(big.Int).SetUint64(target - total)
		x := new(big.Int).Mul(P, delta)
		x.Div(x, T)
		x.Div(x, D)
		if x.Sign() == 0 {
			x.SetUint64(1)
		}
		if since > 10 {
			x.Mul(x, new(big.Int).SetUint64(since/10))
		}
		next.Sub(next, x)
		if next.Sign() < 0 {
			next.SetUint64(0)
		}
	}
	if next.Cmp(new(big.Int).SetUint64(minPrice)) < 0 {
		next.SetUint64(minPrice)
	}
	return next.Uint64(), w
}

func c13(r *simk.Run) *simk.Violation {
	c := r.C
	s := r.NewSim()
	s.Horizon = 280 * 365 * 24 * time.Hour // timelines span up to ~200 simulated years
	var viol *simk.Violation
	var sample map[string]any
	moved := false
	s.Run(r.T, func() {
		rules := genesis.NewDefaultRules()
		var st [fees.FeeDimensions]refDim
		extreme := c.Bool(0.5)
		u := func() uint64 {
			if extreme {
				return c.U64()
			}
			return uint64(c.Intn(5000))
		}
		for d := 0; d < fees.FeeDimensions; d++ {
			rules.WindowTargetUnits[d] = max(1, u())
			rules.UnitPriceChangeDenominator[d] = max(1, []uint64{48, 1, 2, u()}[c.Intn(4)])
			rules.MinUnitPrice[d] = []uint64{1, 0, 100, u()}[c.Intn(4)]
			st[d].price = max(rules.MinUnitPrice[d], u())
			if c.Bool(0.1) {
				st[d].price = u() // may be below the minimum
			}
			for i := range st[d].win {
				if c.Bool(0.6) {
					st[d].win[i] = u()
					if !extreme && c.Bool(0.5) {
						st[d].win[i] = rules.WindowTargetUnits[d] / uint64(1+c.Intn(12))
					}
				}
			}
			st[d].last = u()
		}
		start := time.Now()
		lastSec := start.Unix()
		var prices fees.Dimensions
		var wins [fees.FeeDimensions][10]uint64
		var lasts fees.Dimensions
		for d := range st {
			prices[d], wins[d], lasts[d] = st[d].price, st[d].win, st[d].last
		}
		raw := FeeStateBytes(lastSec, prices, wins, lasts)
		mgr := internalfees.NewManager(raw)
		nSteps := 1 + c.Intn(6)
		var timeline []string
		for step := 0; step < nSteps; step++ {
			el := []int64{0, 1, 2, 9, 10, 11, 12, 20, 25, 3600, 1 << 20, 1 << 30}[c.Intn(12)]
			ms := int64(c.Intn(1000))
			time.Sleep(time.Duration(el)*time.Second + time.Duration(ms)*time.Millisecond)
			nowMs := time.Now().UnixMilli()
			since := uint64(nowMs/1000 - lastSec)
			timeline = append(timeline, fmt.Sprintf("+%ds", since))
			next := mgr.ComputeNext(nowMs, rules)
			// twin: one window slot raised in one dimension -> price must not be lower
			td, tslot := c.Intn(fees.FeeDimensions), c.Intn(10)
			twin := st
			bump := max(1, u())
			twin[td].win[tslot] = satAdd(twin[td].win[tslot], bump)
			var tp fees.Dimensions
			var tw [fees.FeeDimensions][10]uint64
			var tl fees.Dimensions
			for d := range twin {
				tp[d], tw[d], tl[d] = twin[d].price, twin[d].win, twin[d].last
			}
			twinNext := internalfees.NewManager(FeeStateBytes(lastSec, tp, tw, tl)).ComputeNext(nowMs, rules)
			for d := fees.Dimension(0); d < fees.FeeDimensions; d++ {
				wantP, wantW := refNext(st[d], rules.WindowTargetUnits[d], rules.UnitPriceChangeDenominator[d], rules.MinUnitPrice[d], since)
				gotP := next.UnitPrice(d)
				desc := fmt.Sprintf("dimension %d: previous price %d, window %v, last consumed %d, target %d, denominator %d, min price %d, elapsed %d s", d, st[d].price, st[d].win, st[d].last, rules.WindowTargetUnits[d], rules.UnitPriceChangeDenominator[d], rules.MinUnitPrice[d], since)
				if gotP != wantP {
					cls := "C13/price-differs-from-exact-rule"
					if gotP < rules.MinUnitPrice[d] {
						cls = "C13/price-below-minimum"
					}
					viol = &simk.Violation{Class: cls, Detail: fmt.Sprintf("next unit price %d, exact rule gives %d; %s", gotP, wantP, desc)}
					return
				}
				gw := next.Window(d)
				for i := 0; i < 10; i++ {
					var x uint64
					for b := 0; b < 8; b++ {
						x = x<<8 | uint64(gw[i*8+b])
					}
					if x != wantW[i] {
						viol = &simk.Violation{Class: "C13/window-differs", Detail: fmt.Sprintf("window slot %d = %d, rule gives %d; %s", i, x, wantW[i], desc)}
						return
					}
				}
				if next.LastConsumed(d) != 0 {
					viol = &simk.Violation{Class: "C13/consumption-not-reset", Detail: fmt.Sprintf("next state starts with consumption %d; %s", next.LastConsumed(d), desc)}
					return
				}
				if gotP != st[d].price {
					moved = true
				}
				if d == fees.Dimension(td) && twinNext.UnitPrice(d) < gotP {
					viol = &simk.Violation{Class: "C13/non-monotonic", Detail: fmt.Sprintf("raising window slot %d by %d lowers the next price from %d to %d; %s", tslot, bump, gotP, twinNext.UnitPrice(d), desc)}
					return
				}
			}
			// block consumption, encode/decode round trip
			for d := fees.Dimension(0); d < fees.FeeDimensions; d++ {
				next.SetLastConsumed(d, u())
			}
			enc := append([]byte{}, next.Bytes()...)
			dec := internalfees.NewManager(append([]byte{}, enc...))
			if !bytes.Equal(dec.Bytes(), enc) || dec.UnitPrices() != next.UnitPrices() || dec.UnitsConsumed() != next.UnitsConsumed() {
				viol = &simk.Violation{Class: "C13/encoding-roundtrip", Detail: "encoded fee state does not decode to the same prices/consumption"}
				return
			}
			for d := fees.Dimension(0); d < fees.FeeDimensions; d++ {
				_, w := refNext(st[d], rules.WindowTargetUnits[d], rules.UnitPriceChangeDenominator[d], rules.MinUnitPrice[d], since)
				st[d] = refDim{price: dec.UnitPrice(d), last: dec.LastConsumed(d), win: w}
			}
			mgr = dec
			lastSec = nowMs / 1000
		}
		sample = map[string]any{"extreme": extreme, "timeline": timeline, "targets": rules.WindowTargetUnits, "denominators": rules.UnitPriceChangeDenominator, "min_prices": rules.MinUnitPrice, "start_prices": prices}
		r.Fingerprint("%v|%v|%v|%v|%v|%v", timeline, rules.WindowTargetUnits, rules.UnitPriceChangeDenominator, rules.MinUnitPrice, prices, wins)
	})
	r.Sample(sample)
	if moved {
		r.Nontrivial()
	}
	if v := s.Violation(); v != nil {
		return v
	}
	return viol
}

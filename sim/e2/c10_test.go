package e2

import (
	"context"
	"encoding/binary"
	"fmt"
	"time"

	"github.com/ava-labs/avalanchego/ids"

	"github.com/ava-labs/hypersdk/chain"
	"github.com/ava-labs/hypersdk/fees"
	"github.com/ava-labs/hypersdk/state"
	"github.com/ava-labs/hypersdk/verifsim/simk"
)

// c10Admission: mempool admission (PreExecutor.PreExecute) applies the validity checks at the
// *current* simulated time, for a sequence of submissions on the same parent while the clock advances.
func c10Admission(r *simk.Run) *simk.Violation {
	c := r.C
	s := r.NewSim()
	s.KeepLog = simk.WantLog()
	var viol *simk.Violation
	var trace []string
	s.Run(r.T, func() {
		ctx := context.Background()
		rules := genRules(c, focus{})
		sp := sponsors()
		now0 := time.Now().UnixMilli()
		parentTS := now0 - rules.MinBlockGap - 1000
		var windows [fees.FeeDimensions][10]uint64
		feeState := FeeStateBytes(parentTS/1000, fees.Dimensions{1, 1, 1, 1, 1}, windows, fees.Dimensions{})
		kv := map[string][]byte{string(envBalKey(sp[0])): binary.BigEndian.AppendUint64(nil, 1<<60)}
		env, err := NewEnv(ctx, rules, now0, 0, parentTS, feeState, kv, nil)
		if err != nil {
			s.Violate("harness", "%v", err)
			return
		}
		vw, err := env.ValidityWindow(ctx)
		if err != nil {
			s.Violate("harness", "%v", err)
			return
		}
		pre := chain.NewPreExecutor(env.RF, vw, env.MM, env.BH)
		k := simKey('a', 1)
		n := 1 + c.Intn(6)
		for i := 0; i < n; i++ {
			// let simulated time pass between submissions
			time.Sleep(time.Duration([]int{0, 1, 400, 1000, 1500, 5000, 61000}[c.Intn(7)]) * time.Millisecond)
			now := time.Now().UnixMilli()
			var expiry int64
			switch c.Intn(7) {
			case 0:
				expiry = (now / 1000) * 1000 // this second: expired unless now is exactly on the second
			case 1:
				expiry = (now/1000 + 1) * 1000
			case 2:
				expiry = (now/1000 - 1) * 1000
			case 3:
				expiry = (now + rules.ValidityWindow) / 1000 * 1000
			case 4:
				expiry = ((now+rules.ValidityWindow)/1000 + 1) * 1000
			case 5:
				expiry = (now/1000+1)*1000 + int64(1+c.Intn(999))
			default:
				expiry = (now0/1000 + 1) * 1000 // valid at the first submission, possibly expired by now
			}
			chainID := rules.ChainID
			if c.Intn(10) == 0 {
				chainID = ids.Empty.Prefix(3)
			}
			nAct := 1
			if c.Intn(8) == 0 {
				nAct = int(rules.MaxActionsPerTx) + c.Intn(2)
			}
			var acts []chain.Action
			for a := 0; a < nAct; a++ {
				sa := &SimAction{Start: -1, End: -1, Nonce: uint64(i*100 + a + 1), Ops: []SimOp{{Kind: "get", Key: k}}, Decl: []SimDecl{{Key: k, Perm: state.Read}}}
				if a == 0 && c.Intn(8) == 0 {
					sa.Start = now + int64(c.Intn(3)-1) // around now
				}
				acts = append(acts, sa)
			}
			td := chain.NewTxData(chain.Base{Timestamp: expiry, ChainID: chainID, MaxFee: ^uint64(0)}, acts)
			tx, err := td.Sign(sp[0])
			if err != nil {
				s.Violate("harness", "%v", err)
				return
			}
			want := expiry%1000 == 0 && expiry >= now && expiry <= now+rules.ValidityWindow && chainID == rules.ChainID && nAct <= int(rules.MaxActionsPerTx)
			for _, a := range acts {
				if st, _ := a.ValidRange(rules); st >= 0 && now < st {
					want = false
				}
			}
			admitErr := pre.PreExecute(ctx, env.Parent, env.DB, tx)
			trace = append(trace, fmt.Sprintf("t=+%dms submit(expiry=now%+dms, actions=%d, chainOK=%v) -> admitted=%v", now-now0, expiry-now, nAct, chainID == rules.ChainID, admitErr == nil))
			if (admitErr == nil) != want {
				cls := "C10/admitted-non-executable-tx"
				if want {
					cls = "C10/rejected-executable-tx"
				}
				viol = &simk.Violation{Class: cls, Detail: fmt.Sprintf("admission at simulated time +%dms: expiry=now%+dms window=%d actions=%d (limit %d): admitted=%v (err %v), the validity predicate at the current time says %v; submissions=%v", now-now0, expiry-now, rules.ValidityWindow, nAct, rules.MaxActionsPerTx, admitErr == nil, admitErr, want, trace)}
				return
			}
		}
	})
	r.Sample(map[string]any{"party": "admission", "submissions": trace})
	r.Fingerprint("adm|%v", trace)
	r.Nontrivial()
	if v := s.Violation(); v != nil {
		return v
	}
	return viol
}

package e2

import (
	"context"
	"encoding/binary"
	"fmt"
	"time"

	"github.com/ava-labs/avalanchego/trace"
	"github.com/ava-labs/avalanchego/utils/logging"
	"github.com/prometheus/client_golang/prometheus"

	"github.com/ava-labs/hypersdk/chain"
	"github.com/ava-labs/hypersdk/fees"
	"github.com/ava-labs/hypersdk/internal/mempool"
	"github.com/ava-labs/hypersdk/state"
	"github.com/ava-labs/hypersdk/verifsim/simk"

	internalfees "github.com/ava-labs/hypersdk/internal/fees"
)

// c07Setup builds a one-sponsor environment and a single-action transaction whose max fee is
// fee+delta at the unit prices in force at the simulated current time.
func c07Setup(ctx context.Context, r *simk.Run) (*Env, *chain.Transaction, uint64, int64, error) {
	c := r.C
	rules := genRules(c, focus{})
	sp := sponsors()
	prices := fees.Dimensions{}
	for d := range prices {
		prices[d] = []uint64{1, 100, 3, 1 << 20}[c.Intn(4)]
	}
	now := time.Now().UnixMilli()
	parentTS := now - rules.MinBlockGap - int64(c.Intn(3))*1000
	var windows [fees.FeeDimensions][10]uint64
	feeState := FeeStateBytes(parentTS/1000, prices, windows, fees.Dimensions{})
	k := simKey('a', 1)
	kv := map[string][]byte{string(envBalKey(sp[0])): binary.BigEndian.AppendUint64(nil, 1<<60)}
	env, err := NewEnv(ctx, rules, now, uint64(c.Intn(3)), parentTS, feeState, kv, nil)
	if err != nil {
		return nil, nil, 0, 0, err
	}
	sa := &SimAction{Compute: uint64(c.Intn(4)), Start: -1, End: -1, Nonce: 1,
		Ops:  []SimOp{{Kind: "put", Key: k, Val: []byte("v")}},
		Decl: []SimDecl{{Key: k, Perm: state.All}}}
	expiry := (now/1000 + 1) * 1000
	base := chain.Base{Timestamp: expiry, ChainID: rules.ChainID, MaxFee: ^uint64(0)}
	td := chain.NewTxData(base, []chain.Action{sa})
	tx, err := td.Sign(sp[0])
	if err != nil {
		return nil, nil, 0, 0, err
	}
	decl := map[string]state.Permissions{string(k): state.All, string(envBalKey(sp[0])): state.Read | state.Write}
	u, ok := refUnits(rules, tx, decl)
	if !ok {
		return nil, nil, 0, 0, fmt.Errorf("units overflow")
	}
	cur := internalfees.NewManager(append([]byte{}, feeState...)).ComputeNext(now, rules).UnitPrices()
	fee, ok := refFee(cur, u)
	if !ok {
		return nil, nil, 0, 0, fmt.Errorf("fee overflow")
	}
	deltas := []int64{-1, 0, 1}
	if fee > 1 {
		deltas = append(deltas, -int64(fee), 1-int64(fee))
	}
	delta := deltas[c.Intn(len(deltas))]
	if r.Avoid && delta < 0 {
		delta = int64(c.Intn(2))
	}
	if fee == 0 && delta < 0 {
		delta = 0
	}
	base.MaxFee = uint64(int64(fee) + delta)
	td = chain.NewTxData(base, []chain.Action{sa})
	tx, err = td.Sign(sp[0])
	return env, tx, fee, delta, err
}

func c07Admission(r *simk.Run) *simk.Violation {
	s := r.NewSim()
	s.KeepLog = simk.WantLog()
	var viol *simk.Violation
	var sample map[string]any
	s.Run(r.T, func() {
		ctx := context.Background()
		env, tx, fee, delta, err := c07Setup(ctx, r)
		if err != nil {
			s.Violate("harness", "%v", err)
			return
		}
		vw, err := env.ValidityWindow(ctx)
		if err != nil {
			s.Violate("harness", "%v", err)
			return
		}
		pre := chain.NewPreExecutor(env.RF, vw, env.MM, env.BH)
		admitErr := pre.PreExecute(ctx, env.Parent, env.DB, tx)
		sample = map[string]any{"party": "admission", "fee": fee, "max_fee_minus_fee": delta, "admitted": admitErr == nil}
		r.Fingerprint("adm|%d|%d", fee, delta)
		if admitErr == nil && delta < 0 {
			viol = &simk.Violation{Class: "C07/admitted-tx-with-max-fee-below-fee", Detail: fmt.Sprintf("mempool admission accepted a transaction whose signed max fee %d is below the fee %d it would be charged now", tx.Base.MaxFee, fee)}
		}
		if admitErr != nil && delta >= 0 {
			viol = &simk.Violation{Class: "C07/rejected-tx-with-sufficient-max-fee", Detail: fmt.Sprintf("admission rejected a transaction with max fee %d >= fee %d: %v", tx.Base.MaxFee, fee, admitErr)}
		}
	})
	r.Sample(sample)
	r.Nontrivial()
	if v := s.Violation(); v != nil {
		return v
	}
	return viol
}

func c07Builder(r *simk.Run) *simk.Violation {
	s := r.NewSim()
	s.KeepLog = simk.WantLog()
	var viol *simk.Violation
	var sample map[string]any
	s.Run(r.T, func() {
		ctx := context.Background()
		env, tx, fee, delta, err := c07Setup(ctx, r)
		if err != nil {
			s.Violate("harness", "%v", err)
			return
		}
		vw, err := env.ValidityWindow(ctx)
		if err != nil {
			s.Violate("harness", "%v", err)
			return
		}
		mp := mempool.New[*chain.Transaction](trace.Noop, 8, 8)
		mp.Add(ctx, []*chain.Transaction{tx})
		metrics, _ := chain.NewMetrics(prometheus.NewRegistry())
		cfg := chain.Config{TargetBuildDuration: time.Second, TransactionExecutionCores: 1 + r.C.Intn(4), StateFetchConcurrency: 1, TargetTxsSize: 1 << 20}
		b := chain.NewBuilder(trace.Noop, env.RF, logging.NoLog{}, env.MM, env.BH, mp, vw, metrics, cfg)
		eb, out, err := b.BuildBlock(ctx, nil, &chain.OutputBlock{ExecutionBlock: env.Parent, View: env.DB, ExecutionResults: &chain.ExecutionResults{}})
		included := err == nil && len(eb.StatelessBlock.Txs) == 1
		sample = map[string]any{"party": "builder", "fee_at_admission_time": fee, "max_fee_minus_fee": delta, "included": included}
		r.Fingerprint("bld|%d|%d", fee, delta)
		if included {
			charged := out.ExecutionResults.Results[0].Fee
			if charged > tx.Base.MaxFee {
				viol = &simk.Violation{Class: "C07/builder-includes-tx-charged-above-max-fee", Detail: fmt.Sprintf("the builder included a transaction and charged it %d although it signed a max fee of %d", charged, tx.Base.MaxFee)}
			}
		}
	})
	r.Sample(sample)
	r.Nontrivial()
	if v := s.Violation(); v != nil {
		return v
	}
	if s.Hung {
		return &simk.Violation{Class: "C07/hang", Detail: "build never returned: " + s.HangInfo}
	}
	return viol
}

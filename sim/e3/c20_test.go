package e3

import (
	"context"
	"encoding/json"
	"errors"
	"fmt"
	"sort"
	"sync"
	"testing"

	"github.com/ava-labs/avalanchego/ids"
	"github.com/ava-labs/avalanchego/snow/engine/common"
	"github.com/ava-labs/avalanchego/snow/engine/snowman/block"
	"github.com/ava-labs/avalanchego/snow/snowtest"

	"github.com/ava-labs/hypersdk/event"
	"github.com/ava-labs/hypersdk/snow"
	"github.com/ava-labs/hypersdk/verifsim/simk"
)

var props = map[string]*simk.Prop{}

func register(p *simk.Prop) { props[p.ID] = p }

func TestEngine(t *testing.T) { simk.Main(t, props) }

func init() {
	register(&simk.Prop{
		ID:    "C20",
		Level: "exploration",
		Rule: "seeded snowman-legal engine call sequences (<=40 calls: propose external blocks incl. invalid ones on any known parent, parse incl. already known/accepted/verified blocks, verify only under a verified-or-accepted parent, build + verify of built blocks, set preference, accept a verified child of the last accepted block followed by rejection of every conflicting processing block, lookups) over forking trees, against the real snow.VM wrapping a recording test chain, with parsed-block cache 1/2/128 and accepted-block cache 1/2/3/128, the async accepter goroutine interleaved by the seeded scheduler (incl. starving it so that accepts queue up), every block-index write a scheduling point (I/O) and, in 15% of the runs, one injected index write error (fatal for the engine: the block is not accepted, nothing may be announced for it); " +
			"oracle = contract automaton + recorder: verify only with the verified/accepted parent's output, accept exactly once per accepted block in height order with the accepted parent, never for a rejected block, notification multisets equal the engine's decisions, an accepted notification only for a block the index already returns, lookups agree with the engine's accepted chain at every step; non-trivial = >=1 fork or >=2 queued accepts; distinct = (call sequence, schedule) hashes",
		Exec:        c20,
		Real:        []string{"snow.VM (ParseBlock, BuildBlock, GetBlock, GetBlockIDAtHeight, LastAccepted, SetPreference)", "snow.StatefulBlock (Verify, Accept, Reject, async accept queue)", "internal/cache.FIFO", "avalanchego cache.LRU"},
		Stub:        []string{"consensus engine (snowman contract automaton)", "chain (recording test chain with valid/invalid blocks)", "chain index (in-memory map)", "goroutine scheduling"},
		Assumptions: []string{"for locally built blocks, which the wrapper treats as verified, 0 or 1 verified notification is accepted"},
	})
}

type c20Node struct {
	blk      *TBlock
	status   string // proposed | parsed | processing | accepted | rejected | failed
	built    bool
	handle   *snow.StatefulBlock[*TBlock, *TOut, *TAcc]
	children []ids.ID
}

type recorder struct {
	mu       sync.Mutex
	verified []ids.ID
	accepted []ids.ID
	rejected []ids.ID
	preRej   []ids.ID
}

func c20(r *simk.Run) *simk.Violation {
	c := r.C
	s := r.NewSim()
	s.KeepLog = simk.WantLog()
	var viol *simk.Violation
	fail := func(class, f string, a ...any) {
		if viol == nil {
			viol = &simk.Violation{Class: "C20/" + class, Detail: fmt.Sprintf(f, a...)}
		}
	}
	parsedCache := []int{128, 1, 2}[c.Intn(3)]
	acceptedCache := []int{128, 1, 2, 3}[c.Intn(4)]
	starve := c.Bool(0.4)
	nOps := 1 + c.Intn(40)
	indexFailAt := 0 // injected fault: the n-th block-index write fails (the 1st one records genesis)
	if c.Bool(0.15) {
		indexFailAt = 2 + c.Intn(5)
	}
	var trace []string
	forks, maxQueued := 0, 0
	rec := &recorder{}
	var chain *TChain

	s.Run(r.T, func() {
		ctx := context.Background()
		if starve {
			s.SetStarve("snow.accepter")
		}
		genesis := NewTBlock(ids.Empty, 0, 1000, 0, false)
		chain = &TChain{Index: newMemIndex(), Genesis: genesis, StartReady: true}
		chain.Index.IO = func(h uint64) { s.Yield("index.write", h) }
		chain.Index.FailAt = indexFailAt
		vm := snow.NewVM[*TBlock, *TOut, *TAcc]("v0", chain)
		vm.AddVerifiedSub(event.SubscriptionFunc[*TOut]{NotifyF: func(_ context.Context, o *TOut) error {
			rec.mu.Lock()
			rec.verified = append(rec.verified, o.id)
			rec.mu.Unlock()
			return nil
		}})
		vm.AddAcceptedSub(event.SubscriptionFunc[*TAcc]{NotifyF: func(ctx context.Context, a *TAcc) error {
			// lookups return the accepted chain: an accepted block that subscribers hear about is indexed
			if id, err := chain.Index.GetBlockIDAtHeight(ctx, a.Hght); err != nil || id != a.id {
				fail("accepted-notified-before-indexed", "accepted notification for height %d while the block index answers (%s, %v) for that height; trace=%v", a.Hght, id, err, trace)
			}
			rec.mu.Lock()
			rec.accepted = append(rec.accepted, a.id)
			rec.mu.Unlock()
			return nil
		}})
		vm.AddRejectedSub(event.SubscriptionFunc[*TOut]{NotifyF: func(_ context.Context, o *TOut) error {
			rec.mu.Lock()
			rec.rejected = append(rec.rejected, o.id)
			rec.mu.Unlock()
			return nil
		}})
		vm.AddPreRejectedSub(event.SubscriptionFunc[*TBlock]{NotifyF: func(_ context.Context, b *TBlock) error {
			rec.mu.Lock()
			rec.preRej = append(rec.preRej, b.id)
			rec.mu.Unlock()
			return nil
		}})
		cfg, _ := json.Marshal(map[string]any{"snowvm": map[string]int{"parsedBlockCacheSize": parsedCache, "acceptedBlockWindowCache": acceptedCache}})
		snowCtx := snowtest.Context(TB(r.T), ids.Empty.Prefix(77))
		toEngine := make(chan common.Message, 16)
		if err := vm.Initialize(ctx, snowCtx, nil, nil, nil, cfg, toEngine, nil, nullSender{}); err != nil {
			fail("harness", "Initialize: %v", err)
			return
		}
		nodes := map[ids.ID]*c20Node{genesis.id: {blk: genesis, status: "accepted"}}
		order := []ids.ID{genesis.id} // creation order, for tape-driven picks
		lastAccepted := genesis.id
		acceptedChain := []ids.ID{genesis.id}
		engineAccepted := []ids.ID{}
		engineRejected := map[ids.ID]bool{}
		engineVerifiedByExec := map[ids.ID]bool{}
		preferred := genesis.id
		salt := uint32(0)
		pick := func(pred func(*c20Node) bool) *c20Node {
			var cands []*c20Node
			for _, id := range order {
				if n := nodes[id]; pred(n) {
					cands = append(cands, n)
				}
			}
			if len(cands) == 0 {
				return nil
			}
			return cands[c.Intn(len(cands))]
		}
		isAncestorOrSelf := func(anc, id ids.ID) bool {
			for {
				if id == anc {
					return true
				}
				n, ok := nodes[id]
				if !ok || n.blk.Hght == 0 {
					return false
				}
				id = n.blk.Prnt
			}
		}
		lookups := func(when string) {
			la, err := vm.LastAccepted(ctx)
			if err != nil || la != lastAccepted {
				fail("last-accepted-differs", "%s: LastAccepted = (%s, %v), engine's last accepted is %s; trace=%v", when, la, err, lastAccepted, trace)
				return
			}
			for h, id := range acceptedChain {
				got, err := vm.GetBlockIDAtHeight(ctx, uint64(h))
				if err != nil || got != id {
					fail("height-lookup-differs", "%s: GetBlockIDAtHeight(%d) = (%s, %v), accepted chain has %s; trace=%v", when, h, got, err, id, trace)
					return
				}
				b, err := vm.GetBlock(ctx, id)
				if err != nil || b.ID() != id {
					fail("block-lookup-differs", "%s: GetBlock(accepted block at height %d) failed: %v; trace=%v", when, h, err, trace)
					return
				}
			}
			for _, id := range order {
				if n := nodes[id]; n.status == "processing" {
					b, err := vm.GetBlock(ctx, id)
					if err != nil || b.ID() != id {
						fail("block-lookup-differs", "%s: GetBlock(processing block %s) failed: %v; trace=%v", when, n.blk, err, trace)
						return
					}
				}
			}
		}
		indexFailed := false
		for op := 0; op < nOps && viol == nil && !s.Failed() && !indexFailed; op++ {
			switch c.Weighted(5, 5, 6, 3, 2, 5, 2) {
			case 0: // propose an external block
				parent := pick(func(n *c20Node) bool { return n.status != "rejected" && n.status != "failed" })
				salt++
				b := NewTBlockCtx(parent.blk.id, parent.blk.Hght+1, parent.blk.Tmstmp+1, salt, c.Bool(0.2), []uint64{0, 0, 0, 5, 7}[c.Intn(5)])
				if _, ok := nodes[b.id]; ok {
					continue
				}
				if len(parent.children) > 0 {
					forks++
				}
				nodes[b.id] = &c20Node{blk: b, status: "proposed"}
				parent.children = append(parent.children, b.id)
				order = append(order, b.id)
				trace = append(trace, fmt.Sprintf("propose(h%d s%d inv=%v on s%d)", b.Hght, b.Salt, b.Invalid, parent.blk.Salt))
			case 1: // parse (also of already known / verified / accepted blocks)
				n := pick(func(n *c20Node) bool { return n.blk.Hght > 0 })
				if n == nil {
					continue
				}
				trace = append(trace, fmt.Sprintf("parse(s%d %s)", n.blk.Salt, n.status))
				h, err := vm.ParseBlock(ctx, n.blk.bytes)
				if err != nil || h.ID() != n.blk.id {
					fail("parse-fails", "ParseBlock of a well-formed block failed: %v; trace=%v", err, trace)
					return
				}
				if n.status == "proposed" {
					n.status = "parsed"
					n.handle = h
				} else if n.handle != nil && n.status == "processing" && h != n.handle {
					fail("parse-returns-new-object-for-processing-block", "parsing an already verified block returned a different block object than the one the engine verified; trace=%v", trace)
					return
				}
			case 2: // verify a parsed block whose parent is processing or last accepted
				n := pick(func(n *c20Node) bool {
					if n.status != "parsed" {
						return false
					}
					p := nodes[n.blk.Prnt]
					return p.status == "processing" || p.blk.id == lastAccepted
				})
				if n == nil {
					continue
				}
				// the engine (snowman++) verifies a block with the P-Chain context of its proposer wrapper;
				// sometimes with one that does not match the block's own: that must fail before the chain
				// is asked to execute anything, and the block stays unverified
				provided := n.blk.GetContext()
				if c.Bool(0.12) {
					switch {
					case provided == nil:
						provided = &block.Context{PChainHeight: 9}
					case c.Bool(0.5):
						provided = nil
					default:
						provided = &block.Context{PChainHeight: provided.PChainHeight + 1}
					}
					trace = append(trace, fmt.Sprintf("verify-with-wrong-context(s%d inv=%v)", n.blk.Salt, n.blk.Invalid))
					verifyCalls := func() int {
						k := 0
						for _, cl := range chain.calls() {
							if cl.Kind == "verify" && cl.Blk == n.blk.id {
								k++
							}
						}
						return k
					}
					callsBefore := verifyCalls()
					rec.mu.Lock()
					verifiedBefore := len(rec.verified)
					rec.mu.Unlock()
					var verr error
					if provided == nil {
						verr = n.handle.Verify(ctx)
					} else {
						verr = n.handle.VerifyWithContext(ctx, provided)
					}
					s.Probe("verify_with_mismatched_context")
					if verr == nil {
						fail("mismatched-context-verified", "Verify succeeded although the provided P-Chain context does not match the block's; trace=%v", trace)
						return
					}
					rec.mu.Lock()
					verifiedAfter := len(rec.verified)
					rec.mu.Unlock()
					if verifyCalls() != callsBefore || verifiedAfter != verifiedBefore {
						fail("chain-executed-block-whose-verify-failed", "Verify returned %v for a P-Chain context mismatch, yet the chain was asked to verify the block (%d VerifyBlock calls for it, %d verified notifications during the call); trace=%v", verr, verifyCalls()-callsBefore, verifiedAfter-verifiedBefore, trace)
						return
					}
					continue // still only parsed; the engine may verify it again with the right context
				}
				trace = append(trace, fmt.Sprintf("verify(s%d inv=%v)", n.blk.Salt, n.blk.Invalid))
				var err error
				if provided == nil {
					err = n.handle.Verify(ctx)
				} else {
					err = n.handle.VerifyWithContext(ctx, provided)
				}
				if n.blk.Invalid {
					if err == nil {
						fail("invalid-block-verified", "Verify succeeded for a block the chain rejects; trace=%v", trace)
						return
					}
					n.status = "failed"
				} else {
					if err != nil {
						fail("valid-block-fails-verify", "Verify failed for a valid block under a verified parent: %v; trace=%v", err, trace)
						return
					}
					n.status = "processing"
					engineVerifiedByExec[n.blk.id] = true
				}
			case 3: // build on the preference, then verify the built block like the engine does
				trace = append(trace, fmt.Sprintf("build(on s%d)", nodes[preferred].blk.Salt))
				h, err := vm.BuildBlock(ctx)
				if err != nil {
					fail("build-fails", "BuildBlock failed: %v; trace=%v", err, trace)
					return
				}
				if h.Parent() != preferred {
					fail("build-ignores-preference", "built block extends %s, preference is %s; trace=%v", h.Parent(), preferred, trace)
					return
				}
				if len(nodes[preferred].children) > 0 {
					forks++
				}
				nodes[h.ID()] = &c20Node{blk: h.Input, status: "parsed", built: true, handle: h}
				nodes[preferred].children = append(nodes[preferred].children, h.ID())
				order = append(order, h.ID())
				if err := h.Verify(ctx); err != nil {
					fail("built-block-fails-verify", "Verify of a locally built block failed: %v; trace=%v", err, trace)
					return
				}
				nodes[h.ID()].status = "processing"
			case 4: // set preference
				n := pick(func(n *c20Node) bool { return n.status == "processing" || n.blk.id == lastAccepted })
				preferred = n.blk.id
				trace = append(trace, fmt.Sprintf("prefer(s%d)", n.blk.Salt))
				if err := vm.SetPreference(ctx, preferred); err != nil {
					fail("set-preference-fails", "%v", err)
					return
				}
			case 5: // accept a processing child of the last accepted block; reject everything that conflicts
				n := pick(func(n *c20Node) bool { return n.status == "processing" && n.blk.Prnt == lastAccepted })
				if n == nil {
					continue
				}
				trace = append(trace, fmt.Sprintf("accept(s%d)", n.blk.Salt))
				if err := n.handle.Accept(ctx); err != nil {
					if indexFailAt != 0 && errors.Is(err, errIndexFault) {
						// the engine treats a failed Accept as fatal: the block is not accepted and no further
						// call is made; nothing may have been accepted or announced for it
						trace = append(trace, "accept-returned-index-write-error")
						s.FaultFired("index-write-error")
						indexFailed = true
						break
					}
					fail("accept-fails", "Accept of a verified child of the last accepted block failed: %v; trace=%v", err, trace)
					return
				}
				n.status = "accepted"
				lastAccepted = n.blk.id
				acceptedChain = append(acceptedChain, n.blk.id)
				engineAccepted = append(engineAccepted, n.blk.id)
				if q := len(engineAccepted) - func() int { rec.mu.Lock(); defer rec.mu.Unlock(); return len(rec.accepted) - 1 }(); q > maxQueued {
					maxQueued = q
				}
				// reject conflicting processing blocks, lowest height first
				var rej []*c20Node
				for _, id := range order {
					m := nodes[id]
					if m.status == "processing" && !isAncestorOrSelf(lastAccepted, id) {
						rej = append(rej, m)
					}
				}
				sort.SliceStable(rej, func(i, j int) bool { return rej[i].blk.Hght < rej[j].blk.Hght })
				for _, m := range rej {
					trace = append(trace, fmt.Sprintf("reject(s%d)", m.blk.Salt))
					if err := m.handle.Reject(ctx); err != nil {
						fail("reject-fails", "Reject failed: %v; trace=%v", err, trace)
						return
					}
					m.status = "rejected"
					engineRejected[m.blk.id] = true
				}
				if !isAncestorOrSelf(lastAccepted, preferred) {
					preferred = lastAccepted
					_ = vm.SetPreference(ctx, preferred)
				}
			default:
				trace = append(trace, "lookups")
			}
			lookups(fmt.Sprintf("after call %d", len(trace)))
		}
		if viol != nil || s.Failed() {
			return
		}
		// drain the accept queue and stop
		if err := vm.Shutdown(ctx); err != nil {
			fail("shutdown-error", "%v", err)
			return
		}
		// ---- recorder oracle
		calls := chain.calls()
		outs := map[ids.ID]*TOut{genesis.id: chain.GenOut}
		var lastAcc *TAcc = chain.GenAcc
		accIdx := 0
		verifiedByChain := map[ids.ID]int{}
		for _, cl := range calls {
			switch cl.Kind {
			case "build":
				if outs[cl.Out.Prnt] != cl.ParentOut {
					fail("build-on-foreign-parent-output", "BuildBlock received a parent output that is not the verified output of the block's parent; trace=%v", trace)
					return
				}
				outs[cl.Blk] = cl.Out
			case "verify":
				p, ok := outs[nodes[cl.Blk].blk.Prnt]
				if !ok || p != cl.ParentOut {
					fail("verify-without-verified-parent", "VerifyBlock(height %d) was called with a parent output that is not the output of its verified/accepted parent; trace=%v", cl.Height, trace)
					return
				}
				verifiedByChain[cl.Blk]++
				if verifiedByChain[cl.Blk] > 1 {
					fail("verified-twice", "the chain verified block at height %d twice; trace=%v", cl.Height, trace)
					return
				}
				if !cl.Err {
					outs[cl.Blk] = cl.Out
				}
			case "accept":
				if accIdx >= len(engineAccepted) || engineAccepted[accIdx] != cl.Blk {
					fail("accept-out-of-order", "AcceptBlock #%d was for height %d but the engine's accept #%d is another block (or none); trace=%v", accIdx, cl.Height, accIdx, trace)
					return
				}
				if engineRejected[cl.Blk] {
					fail("rejected-block-accepted", "AcceptBlock for a rejected block; trace=%v", trace)
					return
				}
				if cl.ParentAcc != lastAcc {
					fail("accept-with-wrong-parent", "AcceptBlock(height %d) did not receive the accepted value of the previously accepted block (got %v); accepted cache=%d; trace=%v", cl.Height, cl.ParentAcc, acceptedCache, trace)
					return
				}
				if outs[cl.Blk] != cl.Out {
					fail("accept-of-foreign-output", "AcceptBlock(height %d) received an output that is not the verified output of that block; trace=%v", cl.Height, trace)
					return
				}
				lastAcc = cl.Acc
				accIdx++
			}
		}
		if accIdx != len(engineAccepted) {
			fail("accept-missing", "the engine accepted %d blocks but the chain's AcceptBlock ran %d times; trace=%v", len(engineAccepted), accIdx, trace)
			return
		}
		// notifications
		rec.mu.Lock()
		defer rec.mu.Unlock()
		wantAcc := append([]ids.ID{genesis.id}, engineAccepted...) // the last accepted block is re-notified at start-up
		if fmt.Sprint(rec.accepted) != fmt.Sprint(wantAcc) {
			fail("accepted-notifications-differ", "accepted notifications %d (expected genesis + %d accepts, in order); trace=%v", len(rec.accepted), len(engineAccepted), trace)
			return
		}
		gotRej := map[ids.ID]int{}
		for _, id := range rec.rejected {
			gotRej[id]++
		}
		for _, id := range rec.preRej {
			gotRej[id]++
		}
		for id := range engineRejected {
			if gotRej[id] != 1 {
				fail("rejected-notifications-differ", "block %s rejected by the engine got %d rejected notifications; trace=%v", nodes[id].blk, gotRej[id], trace)
				return
			}
		}
		for id, n := range gotRej {
			if !engineRejected[id] {
				fail("rejected-notifications-differ", "%d rejected notifications for block %s which the engine did not reject; trace=%v", n, nodes[id].blk, trace)
				return
			}
		}
		gotVer := map[ids.ID]int{}
		for _, id := range rec.verified {
			gotVer[id]++
		}
		for id, n := range nodes {
			switch {
			case engineVerifiedByExec[id]:
				if gotVer[id] != 1 {
					fail("verified-notifications-differ", "block %s verified by execution got %d verified notifications; trace=%v", n.blk, gotVer[id], trace)
					return
				}
			case n.built:
				if gotVer[id] > 1 {
					fail("verified-notifications-differ", "built block %s got %d verified notifications; trace=%v", n.blk, gotVer[id], trace)
					return
				}
			default:
				if gotVer[id] != 0 {
					fail("verified-notifications-differ", "block %s (status %s) was never verified successfully but got %d verified notifications; trace=%v", n.blk, n.status, gotVer[id], trace)
					return
				}
			}
		}
	})
	r.Sample(map[string]any{"parsed_cache": parsedCache, "accepted_cache": acceptedCache, "starve_accepter": starve, "calls": trace})
	r.Fingerprint("%d|%d|%v|%v", parsedCache, acceptedCache, starve, trace)
	if forks > 0 || maxQueued >= 2 {
		r.Nontrivial()
	}
	if maxQueued >= 2 {
		s.Probe("two_or_more_accepts_queued")
	}
	if v := s.Violation(); v != nil {
		return v
	}
	if viol != nil {
		return viol
	}
	if s.StepLimit {
		return nil
	}
	if s.Hung {
		return &simk.Violation{Class: "C20/hang", Detail: fmt.Sprintf("engine call never returned: parked=[%s] trace=%v", s.HangInfo, trace)}
	}
	return nil
}

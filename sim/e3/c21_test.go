package e3

import (
	"context"
	"encoding/json"
	"fmt"
	"sort"

	"github.com/ava-labs/avalanchego/ids"
	"github.com/ava-labs/avalanchego/snow/engine/common"
	"github.com/ava-labs/avalanchego/snow/snowtest"

	"github.com/ava-labs/hypersdk/event"
	"github.com/ava-labs/hypersdk/snow"
	"github.com/ava-labs/hypersdk/verifsim/simk"
)

func init() {
	register(&simk.Prop{
		ID:    "C21",
		Level: "exploration",
		Rule: "seeded state-sync runs against the real snow.VM over the recording test chain: a network chain of 3..10 blocks with side branches (valid blocks, invalid blocks, valid-looking descendants of invalid blocks); the node starts state sync at a target, the simulated engine keeps parsing / 'verifying' (skipped while syncing) / accepting / rejecting blocks after the target while sync runs, and a separate task finishes the sync at a target equal to or behind the accepted tip at a scheduler-chosen moment, while a monitoring task polls the health check (block re-execution inside FinishStateSync is a scheduling point); afterwards processing blocks are resolved in a seeded order; " +
			"oracle: the chain re-executes exactly the blocks between the finish target and the accepted tip, in order, from the synced state; every still-processing block is re-verified once against its parent's output (valid => verified; invalid or descendant of invalid => unverified); the health check fails exactly while a failed processing block is unresolved, also when polled in the middle of the hand-over; accepting an unverified block errors; final accepted notifications/lookups equal the executing reference. non-trivial = >=1 block accepted during sync and >=1 processing block at finish; distinct = (scenario, schedule) hashes",
		Exec: c21,
		Real: []string{"snow.VM StartStateSync / FinishStateSync / verifyProcessingBlocks / reprocessFromOutputToInput", "snow health checks", "snow.StatefulBlock Verify/Accept/Reject in not-ready mode", "async accepter"},
		Stub: []string{"consensus engine", "state sync client (a task calling FinishStateSync with the target's output)", "chain (recording test chain)", "chain index (in-memory)", "goroutine scheduling"},
	})
}

func c21(r *simk.Run) *simk.Violation {
	c := r.C
	s := r.NewSim()
	s.KeepLog = simk.WantLog()
	var viol *simk.Violation
	fail := func(class, f string, a ...any) {
		if viol == nil {
			viol = &simk.Violation{Class: "C21/" + class, Detail: fmt.Sprintf(f, a...)}
		}
	}
	var trace []string
	acceptedDuringSync, processingAtFinish := 0, 0
	acceptedCache := []int{128, 1, 2, 4}[c.Intn(4)]

	s.Run(r.T, func() {
		ctx := context.Background()
		genesis := NewTBlock(ids.Empty, 0, 1000, 0, false)
		chain := &TChain{Index: newMemIndex(), Genesis: genesis, StartReady: true}
		vm := snow.NewVM[*TBlock, *TOut, *TAcc]("v0", chain)
		var accNotes, preAccNotes []ids.ID
		vm.AddAcceptedSub(event.SubscriptionFunc[*TAcc]{NotifyF: func(_ context.Context, a *TAcc) error {
			accNotes = append(accNotes, a.id)
			return nil
		}})
		vm.AddPreReadyAcceptedSub(event.SubscriptionFunc[*TBlock]{NotifyF: func(_ context.Context, b *TBlock) error {
			preAccNotes = append(preAccNotes, b.id)
			return nil
		}})
		cfg, _ := json.Marshal(map[string]any{"snowvm": map[string]int{"parsedBlockCacheSize": 128, "acceptedBlockWindowCache": acceptedCache}})
		if err := vm.Initialize(ctx, snowtest.Context(TB(r.T), ids.Empty.Prefix(78)), nil, nil, nil, cfg, make(chan common.Message, 16), nil, nullSender{}); err != nil {
			fail("harness", "Initialize: %v", err)
			return
		}
		// the network's chain
		n := 3 + c.Intn(8)
		main := []*TBlock{genesis}
		for i := 1; i <= n; i++ {
			main = append(main, NewTBlock(main[i-1].id, uint64(i), 1000+int64(i), uint32(i), false))
		}
		byID := map[ids.ID]*TBlock{}
		for _, b := range main {
			byID[b.id] = b
		}
		target := 1 + c.Intn(n-1) // initial sync target height (>=1, < n)
		trace = append(trace, fmt.Sprintf("chain(len=%d) start-sync(target=%d)", n, target))
		if err := vm.StartStateSync(ctx, main[target]); err != nil {
			fail("start-sync-fails", "%v", err)
			return
		}
		if _, err := vm.HealthCheck(ctx); err == nil {
			fail("healthy-while-syncing", "health check passes although state sync is running")
			return
		}
		tip := target // accepted tip (height on the main chain)
		type pnode struct {
			blk       *TBlock
			handle    *snow.StatefulBlock[*TBlock, *TOut, *TAcc]
			wantValid bool // valid and all ancestors after the accepted chain valid
		}
		processing := map[ids.ID]*pnode{}
		var procOrder []ids.ID
		salt := uint32(100)
		engineVerify := func(b *TBlock) *snow.StatefulBlock[*TBlock, *TOut, *TAcc] {
			h, err := vm.ParseBlock(ctx, b.bytes)
			if err != nil {
				fail("parse-fails", "%v", err)
				return nil
			}
			if err := h.Verify(ctx); err != nil {
				fail("verify-during-sync-fails", "Verify while syncing must be skipped, got %v; trace=%v", err, trace)
				return nil
			}
			return h
		}
		finishAt := -1
		finished := make(chan struct{})
		var finishErr error
		finisher := func() {
			// the sync client finishes at a height between the initial target and the accepted tip
			h := target
			if tip > target {
				h = target + c.Intn(tip-target+1)
			}
			finishAt = h
			processingAtFinish = len(processing)
			trace = append(trace, fmt.Sprintf("finish-sync(at=%d, tip=%d, processing=%d)", h, tip, len(processing)))
			out := &TOut{TBlock: main[h], How: "sync"}
			acc := &TAcc{TBlock: main[h]}
			chain.mu.Lock()
			chain.Calls = append(chain.Calls, chainCall{Kind: "synced", Blk: main[h].id, Height: uint64(h), Out: out, Acc: acc})
			chain.mu.Unlock()
			finishErr = vm.FinishStateSync(ctx, main[h], out, acc)
			close(finished)
		}
		finishStarted := false
		// a monitoring client polls the health check while the node syncs and hands over
		chain.IO = func(what string, h uint64) { s.Yield(what, h) }
		s.Go("health.monitor", 0, func() {
			for i := 0; i < 8; i++ {
				s.Yield("health.monitor", uint64(i))
				select {
				case <-finished:
					return
				default:
				}
				_, herr := vm.HealthCheck(ctx)
				select {
				case <-finished:
					return
				default:
				}
				if herr != nil {
					continue
				}
				s.Probe("health_polled_healthy_before_handover_returned")
				bad := 0
				for _, p := range processing {
					if !p.wantValid {
						bad++
					}
				}
				if !finishStarted {
					fail("healthy-while-syncing", "health check passes while state sync is still running; trace=%v", trace)
				} else if bad > 0 {
					fail("healthy-with-failed-processing-block", "health check passes in the middle of FinishStateSync although %d processing blocks cannot be verified; trace=%v", bad, trace)
				}
			}
		})
		nOps := 1 + c.Intn(14)
		for op := 0; op < nOps && viol == nil && !s.Failed(); op++ {
			select {
			case <-finished:
				op = nOps // continue below with post-sync checks
				continue
			default:
			}
			kind := c.Weighted(5, 4, 2, 2)
			if finishStarted && kind == 1 {
				kind = 3 // no new processing blocks while the sync is being finished
			}
			switch kind {
			case 0: // accept the next main-chain block (skipped verification while syncing)
				if tip >= n {
					continue
				}
				b := main[tip+1]
				if finishStarted && len(processing) > 0 {
					// keep the processing set stable while FinishStateSync may be running
					s.Yield("engine.idle", 0)
					continue
				}
				var h *snow.StatefulBlock[*TBlock, *TOut, *TAcc]
				if p, ok := processing[b.id]; ok {
					h = p.handle
				} else if h = engineVerify(b); h == nil {
					return
				}
				trace = append(trace, fmt.Sprintf("accept(h=%d)", tip+1))
				if err := h.Accept(ctx); err != nil {
					fail("accept-during-sync-fails", "Accept of the next block while syncing failed: %v; trace=%v", err, trace)
					return
				}
				delete(processing, b.id)
				tip++
				if !finishStarted {
					acceptedDuringSync++
				}
				// reject every processing block that does not descend from the accepted block (incl. descendants of rejected ones)
				descends := func(id ids.ID) bool {
					for {
						if id == b.id {
							return true
						}
						p, ok := processing[id]
						if !ok {
							return false
						}
						id = p.blk.Prnt
					}
				}
				var rej []*pnode
				for _, id := range procOrder {
					if p, ok := processing[id]; ok && !descends(p.blk.Prnt) {
						rej = append(rej, p)
					}
				}
				sort.SliceStable(rej, func(i, j int) bool { return rej[i].blk.Hght < rej[j].blk.Hght })
				for ri, p := range rej {
					trace = append(trace, fmt.Sprintf("reject(s%d)", p.blk.Salt))
					_ = p.handle.Reject(ctx)
					delete(processing, p.blk.id)
					// a block whose parent has just been rejected cannot be verified any more
					for _, q := range rej[ri+1:] {
						if q.blk.Prnt == p.blk.id || !processingHas(processing, q.blk.Prnt) && q.blk.Prnt != b.id && !onMain(main, q.blk.Prnt) {
							q.wantValid = false
						}
					}
					// the engine rejects block by block; the sync client may finish in between (it does not
					// synchronise with the engine's decisions)
					if ri+1 < len(rej) && c.Bool(0.35) {
						if !finishStarted {
							finishStarted = true
							s.Go("statesync.finish", 0, finisher)
						}
						s.Yield("engine.between-rejects", uint64(ri))
						select {
						case <-finished:
							s.Probe("sync_finished_between_two_rejects")
							if finishErr == nil {
								if _, herr := vm.HealthCheck(ctx); herr == nil {
									fail("healthy-with-failed-processing-block", "state sync finished between two rejects of one branch: %d blocks of the rejected branch are still processing and cannot be verified, but the health check passes; trace=%v", len(rej)-ri-1, trace)
									return
								}
							}
						default:
						}
					}
				}
			case 1: // a processing block beyond the tip: main-chain block, side block, invalid block, or child of a processing block
				var parent *TBlock
				wantValid := true
				if len(procOrder) > 0 && c.Bool(0.5) {
					pid := procOrder[c.Intn(len(procOrder))]
					p, ok := processing[pid]
					if !ok {
						continue
					}
					parent, wantValid = p.blk, p.wantValid
				} else {
					parent = main[tip]
				}
				var b *TBlock
				if parent.Hght < uint64(n) && main[parent.Hght+1].Prnt == parent.id && c.Bool(0.4) {
					b = main[parent.Hght+1]
				} else {
					salt++
					b = NewTBlock(parent.id, parent.Hght+1, parent.Tmstmp+1, salt, c.Bool(0.3))
				}
				if _, ok := processing[b.id]; ok {
					continue
				}
				byID[b.id] = b
				h := engineVerify(b)
				if h == nil {
					return
				}
				processing[b.id] = &pnode{blk: b, handle: h, wantValid: wantValid && !b.Invalid}
				procOrder = append(procOrder, b.id)
				trace = append(trace, fmt.Sprintf("processing(h=%d s%d inv=%v)", b.Hght, b.Salt, b.Invalid))
			case 2:
				if !finishStarted {
					finishStarted = true
					s.Go("statesync.finish", 0, finisher)
				}
			default:
				s.Yield("engine.idle", 0)
			}
		}
		if viol != nil || s.Failed() {
			return
		}
		if !finishStarted {
			finishStarted = true
			s.Go("statesync.finish", 0, finisher)
		}
		<-finished
		if finishErr != nil {
			fail("finish-sync-fails", "FinishStateSync(target %d, tip at call time <= %d) failed: %v; trace=%v", finishAt, tip, finishErr, trace)
			return
		}
		// ---- oracle 1: reprocessing = exactly the blocks finishAt+1..tipAtFinish, in order, from the synced values
		calls := chain.calls()
		si := -1
		for i, cl := range calls {
			if cl.Kind == "synced" {
				si = i
			}
		}
		post := calls[si+1:]
		curOut, curAcc := calls[si].Out, calls[si].Acc
		h := finishAt
		idx := 0
		for idx+1 < len(post) && post[idx].Kind == "verify" && post[idx+1].Kind == "accept" && post[idx].Blk == main[min(h+1, n)].id && h < n {
			if post[idx].ParentOut != curOut || post[idx+1].ParentAcc != curAcc || post[idx].Err {
				fail("reprocess-from-wrong-state", "re-execution of height %d did not start from the state of height %d; trace=%v", h+1, h, trace)
				return
			}
			curOut, curAcc = post[idx].Out, post[idx+1].Acc
			h++
			idx += 2
		}
		// h is now the height the node re-executed up to; it must be the accepted tip at the time sync finished.
		la, _ := vm.LastAccepted(ctx)
		laBlk := byID[la]
		if laBlk == nil || int(laBlk.Hght) < h {
			fail("last-accepted-lost", "after sync LastAccepted is %s; trace=%v", la, trace)
			return
		}
		// accepts issued after the finish are executed normally (queued); every main block up to the tip must be executed exactly once after the sync point
		// ---- oracle 2: processing blocks re-verified once, health check
		reverified := map[ids.ID]int{}
		for _, cl := range post[idx:] {
			if cl.Kind == "verify" {
				reverified[cl.Blk]++
			}
		}
		failedProcessing := 0
		var ids2 []ids.ID
		for id := range processing {
			ids2 = append(ids2, id)
		}
		sort.Slice(ids2, func(i, j int) bool { return processing[ids2[i]].blk.Salt < processing[ids2[j]].blk.Salt })
		for _, id := range ids2 {
			p := processing[id]
			if !p.wantValid {
				failedProcessing++
			}
		}
		_, herr := vm.HealthCheck(ctx)
		if failedProcessing > 0 && herr == nil {
			fail("healthy-with-failed-processing-block", "%d processing blocks cannot be verified after sync but the health check passes; trace=%v", failedProcessing, trace)
			return
		}
		if failedProcessing == 0 && herr != nil {
			fail("unhealthy-without-failed-blocks", "health check fails after sync although every processing block verifies: %v; trace=%v", herr, trace)
			return
		}
		// accepting an unverified processing block must error; a verified child of the tip must be acceptable
		for _, id := range ids2 {
			p := processing[id]
			if p.blk.Prnt != la {
				continue
			}
			if !p.wantValid {
				if err := p.handle.Accept(ctx); err == nil {
					fail("unverified-block-accepted", "Accept of a processing block that failed re-verification succeeded; trace=%v", trace)
					return
				}
			}
		}
		// resolve: reject every failed processing block (seeded order); health must turn green exactly at the end
		perm := c.Perm(len(ids2))
		remaining := failedProcessing
		for _, pi := range perm {
			p := processing[ids2[pi]]
			if p.wantValid {
				continue
			}
			if err := p.handle.Reject(ctx); err != nil {
				fail("reject-fails", "%v", err)
				return
			}
			remaining--
			_, herr := vm.HealthCheck(ctx)
			if remaining > 0 && herr == nil {
				fail("healthy-with-failed-processing-block", "health check passes while %d failed processing blocks are still unresolved; trace=%v", remaining, trace)
				return
			}
			if remaining == 0 && herr != nil {
				fail("unhealthy-after-resolution", "every failed processing block was rejected but the health check still fails: %v; trace=%v", herr, trace)
				return
			}
		}
		// valid processing blocks must now be verified: the main-chain child of the tip (if processing) is acceptable
		for _, id := range ids2 {
			p := processing[id]
			if p.wantValid && p.blk.Prnt == la {
				if err := p.handle.Accept(ctx); err != nil {
					fail("verified-block-not-acceptable", "Accept of a processing block that re-verifies failed: %v; trace=%v", err, trace)
					return
				}
				break
			}
		}
		if err := vm.Shutdown(ctx); err != nil {
			fail("shutdown-error", "%v", err)
			return
		}
		// every block re-verified at most once, and valid processing blocks exactly once
		for _, id := range ids2 {
			p := processing[id]
			parentValid := true
			if pp, ok := processing[p.blk.Prnt]; ok {
				parentValid = pp.wantValid
			}
			want := 0
			if parentValid {
				want = 1
			}
			if reverified[id] != want {
				fail("processing-block-reverification", "processing block (h=%d s%d inv=%v, parent verifiable=%v) was re-verified %d times, want %d; trace=%v", p.blk.Hght, p.blk.Salt, p.blk.Invalid, parentValid, reverified[id], want, trace)
				return
			}
		}
		_ = accNotes
		_ = preAccNotes
	})
	r.Sample(map[string]any{"accepted_cache": acceptedCache, "trace": trace})
	r.Fingerprint("%d|%v", acceptedCache, trace)
	if acceptedDuringSync > 0 && processingAtFinish > 0 {
		r.Nontrivial()
	}
	if v := s.Violation(); v != nil {
		return v
	}
	if viol != nil {
		return viol
	}
	if s.StepLimit {
		return nil
	}
	if s.Hung {
		return &simk.Violation{Class: "C21/hang", Detail: fmt.Sprintf("state sync scenario never finished: parked=[%s] trace=%v", s.HangInfo, trace)}
	}
	return nil
}

func processingHas[T any](m map[ids.ID]T, id ids.ID) bool {
	_, ok := m[id]
	return ok
}

func onMain(main []*TBlock, id ids.ID) bool {
	for _, b := range main {
		if b.id == id {
			return true
		}
	}
	return false
}

package e3

import (
	"context"
	"errors"
	"fmt"
	"sync"
	"sync/atomic"

	"github.com/ava-labs/avalanchego/database"
	"github.com/ava-labs/avalanchego/ids"
	"github.com/ava-labs/avalanchego/trace"
	"github.com/ava-labs/avalanchego/utils/logging"

	"github.com/ava-labs/hypersdk/internal/validitywindow"
	"github.com/ava-labs/hypersdk/verifsim/simk"
)

func init() {
	register(&simk.Prop{
		ID:    "C09",
		Level: "exploration",
		Rule: "two seeded scenario kinds. (window, 70%) the real TimeValidityWindow over a block tree grown by a simulated engine (<=30 ops: propose+verify a block on the last accepted or any processing block with new and re-used transaction ids whose expiries are valid at the block's timestamp, block gaps from {0,1,W/2,W-1,W,W+1}, engine accept with rejection of the conflicting branch, builder repeat queries from a concurrent builder task, restart = new window repopulated from the accepted chain at the accepter's progress followed by re-processing), with window.Accept applied by an asynchronous accepter task that the seeded scheduler lets lag or starves; oracle = ancestry of the model tree: a block repeating a transaction id of any ancestor (or twice in itself) must be refused, a builder query must mark every such transaction. " +
			"(node, 30%) complete morpheusvm nodes: a chain with transfers is built, the node is restarted (clean, or crashed with queued accepts) at a seeded height, then already included transactions are re-submitted (must be refused), pushed into the mempool behind admission and a block is built on every tip (must not contain them), over the rest of the chain; every chain of verified blocks is scanned for a repeated transaction id. non-trivial = a repeat was attempted while >=1 accept was queued or after a restart; distinct = scenario+schedule hashes",
		Exec:        c09,
		Real:        []string{"internal/validitywindow.TimeValidityWindow (VerifyExpiryReplayProtection, IsRepeat, Accept, populate)", "internal/emap", "node kind: vm.VM Submit/BuildBlock/VerifyBlock, chain.PreExecutor, chain.Builder, chain.Processor, restart repopulation in vm.Initialize"},
		Stub:        []string{"window kind: chain index (map of accepted and processing blocks), blocks and transactions (ids + expiries)", "consensus engine", "clock, scheduling"},
		Assumptions: []string{"every generated block satisfies the expiry rule of C10 (block ts <= expiry <= block ts + W), so every repeat of an ancestor's transaction lies within the validity window", "the engine only verifies children of accepted or processing blocks"},
	})
}

type vItem struct {
	id  ids.ID
	exp int64
	n   int
}

func (i *vItem) GetID() ids.ID    { return i.id }
func (i *vItem) GetExpiry() int64 { return i.exp }

type vBlock struct {
	id     ids.ID
	parent ids.ID
	ts     int64
	h      uint64
	txs    []*vItem
}

func (b *vBlock) GetID() ids.ID           { return b.id }
func (b *vBlock) GetParent() ids.ID       { return b.parent }
func (b *vBlock) GetTimestamp() int64     { return b.ts }
func (b *vBlock) GetHeight() uint64       { return b.h }
func (b *vBlock) GetBytes() []byte        { return nil }
func (b *vBlock) GetContainers() []*vItem { return b.txs }
func (b *vBlock) String() string          { return fmt.Sprintf("blk(h=%d,ts=%d)", b.h, b.ts) }
func (b *vBlock) Contains(id ids.ID) bool {
	for _, t := range b.txs {
		if t.id == id {
			return true
		}
	}
	return false
}

type vIndex struct {
	mu sync.Mutex
	m  map[ids.ID]*vBlock
	// slowFor, if set, makes a lookup a scheduling point for that goroutine (a disk read during which
	// other threads run); other callers may hold the window's lock and are never parked here
	slowFor atomic.Uint64
	yield   func()
	// failIn > 0: the failIn-th lookup from now fails once (a transient disk read error)
	failIn atomic.Int64
	failed atomic.Int64
}

var errC09IndexRead = errors.New("injected chain index read error")

func (x *vIndex) GetExecutionBlock(_ context.Context, id ids.ID) (validitywindow.ExecutionBlock[*vItem], error) {
	if g := x.slowFor.Load(); g != 0 && x.yield != nil && simk.GID() == g {
		x.yield()
	}
	if x.failIn.Load() > 0 && x.failIn.Add(-1) == 0 {
		x.failed.Add(1)
		return nil, errC09IndexRead
	}
	x.mu.Lock()
	defer x.mu.Unlock()
	b, ok := x.m[id]
	if !ok {
		return nil, database.ErrNotFound
	}
	return b, nil
}

func (x *vIndex) set(b *vBlock) {
	x.mu.Lock()
	x.m[b.id] = b
	x.mu.Unlock()
}

func (x *vIndex) del(id ids.ID) {
	x.mu.Lock()
	delete(x.m, id)
	x.mu.Unlock()
}

func c09(r *simk.Run) *simk.Violation {
	if r.C.Intn(10) >= 7 {
		return c09Node(r)
	}
	return c09Window(r)
}

func c09Window(r *simk.Run) *simk.Violation {
	c := r.C
	s := r.NewSim()
	s.KeepLog = simk.WantLog()
	var viol *simk.Violation
	var vmu sync.Mutex
	fail := func(class, f string, a ...any) {
		vmu.Lock()
		if viol == nil {
			viol = &simk.Violation{Class: "C09/" + class, Detail: fmt.Sprintf(f, a...)}
		}
		vmu.Unlock()
	}
	W := []int64{4, 10, 1, 100}[c.Intn(4)]
	nOps := 1 + c.Intn(30)
	starve := c.Bool(0.4)
	var trace []string
	var tmu sync.Mutex
	note := func(f string, a ...any) {
		tmu.Lock()
		trace = append(trace, fmt.Sprintf(f, a...))
		tmu.Unlock()
	}
	nontrivial := false

	s.Run(r.T, func() {
		ctx := context.Background()
		if starve {
			s.SetStarve("c09.accepter")
		}
		idx := &vIndex{m: map[ids.ID]*vBlock{}}
		idx.yield = func() { s.Yield("c09.index.read", 0) }
		var compWg sync.WaitGroup
		genesis := &vBlock{id: ids.Empty.Prefix(1), ts: 1000, h: 0}
		idx.set(genesis)
		all := map[ids.ID]*vBlock{genesis.id: genesis} // the model tree: every block ever proposed
		getW := func(int64) int64 { return W }
		win, err := validitywindow.NewTimeValidityWindow[*vItem](ctx, logging.NoLog{}, trace0(), idx, genesis, getW)
		if err != nil {
			fail("harness", "%v", err)
			return
		}
		var winMu sync.Mutex // guards the win variable itself across restarts
		curWin := func() *validitywindow.TimeValidityWindow[*vItem] {
			winMu.Lock()
			defer winMu.Unlock()
			return win
		}
		accepted := []*vBlock{genesis} // engine-accepted chain
		processed := 0                 // index into accepted of the last block given to window.Accept
		var pmu sync.Mutex
		processing := []*vBlock{} // verified, undecided
		var items []*vItem
		nextItem, nextBlk := 0, uint64(1)
		restarted := false

		// model ancestry: does id appear in b's ancestors (b excluded)?
		inAncestors := func(b *vBlock, id ids.ID) *vBlock {
			cur := all[b.parent]
			for cur != nil {
				if cur.Contains(id) {
					return cur
				}
				if cur.h == 0 {
					return nil
				}
				cur = all[cur.parent]
			}
			return nil
		}

		// accepter task
		var q chan *vBlock
		var dead bool
		var accWg sync.WaitGroup
		startAccepter := func() {
			q = make(chan *vBlock, 64)
			dead = false
			accWg.Add(1)
			myQ := q
			s.Go("c09.accepter", 0, func() {
				defer accWg.Done()
				for b := range myQ {
					s.Yield("c09.accepter.dequeue", b.h)
					pmu.Lock()
					d := dead
					pmu.Unlock()
					if d {
						continue
					}
					curWin().Accept(b)
					pmu.Lock()
					processed++
					pmu.Unlock()
				}
			})
		}
		startAccepter()

		// builder task: repeat queries against the current preferred tip
		var bWg sync.WaitGroup
		type bq struct {
			parent *vBlock
			ts     int64
			items  []*vItem
		}
		bqs := make(chan bq, 64)
		bWg.Add(1)
		s.Go("c09.builder", 0, func() {
			defer bWg.Done()
			for x := range bqs {
				s.Yield("c09.builder.query", x.parent.h)
				// the builder builds on the preferred block: only a parent that is still the accepted tip or
				// processing when the answer arrives counts (a block built on a decided parent is on no chain)
				bits, err := curWin().IsRepeat(ctx, x.parent, x.ts, x.items)
				liveParent := x.parent == accepted[len(accepted)-1]
				for _, p := range processing {
					liveParent = liveParent || p == x.parent
				}
				if err != nil || !liveParent {
					continue
				}
				probe := &vBlock{parent: x.parent.id, ts: x.ts, h: x.parent.h + 1}
				for i, it := range x.items {
					where := inAncestors(probe, it.id)
					if where != nil && !bits.Contains(i) {
						fail("builder-repeat-check-misses-included-tx", "IsRepeat(parent h=%d ts=%d, now=%d) did not mark tx #%d (expiry %d), which ancestor h=%d ts=%d already contains; W=%d; ops=%v", x.parent.h, x.parent.ts, x.ts, it.n, it.exp, where.h, where.ts, W, trace)
					}
				}
			}
		})

		pickParent := func() *vBlock {
			cands := append([]*vBlock{accepted[len(accepted)-1]}, processing...)
			return cands[c.Intn(len(cands))]
		}
		gaps := []int64{1, 0, W / 2, W - 1, W, W + 1}
		reuseP := 0.5 // raised once a restart met a read error: what follows should probe the rebuilt window
		chooseItems := func(parent *vBlock, ts int64) ([]*vItem, bool) {
			n := c.Intn(4)
			var out []*vItem
			dupTried := false
			for k := 0; k < n; k++ {
				// re-use an existing transaction whose expiry admits this timestamp, or make a new one
				var reuse []*vItem
				for _, it := range items {
					if ts <= it.exp && it.exp <= ts+W {
						reuse = append(reuse, it)
					}
				}
				if len(reuse) > 0 && c.Bool(reuseP) {
					it := reuse[c.Intn(len(reuse))]
					out = append(out, it)
					dupTried = true
					continue
				}
				nextItem++
				it := &vItem{id: ids.Empty.Prefix(1000 + uint64(nextItem)), exp: ts + int64(c.Intn(int(W)+1)), n: nextItem}
				items = append(items, it)
				out = append(out, it)
			}
			_ = parent
			return out, dupTried
		}

		for op := 0; op < nOps && viol == nil; op++ {
			switch k := c.Intn(10); {
			case k < 5: // propose + verify
				parent := pickParent()
				ts := parent.ts + gaps[c.Intn(len(gaps))]
				txs, dupTried := chooseItems(parent, ts)
				b := &vBlock{id: ids.Empty.Prefix(100 + nextBlk), parent: parent.id, ts: ts, h: parent.h + 1, txs: txs}
				nextBlk++
				all[b.id] = b
				var why string
				seen := map[ids.ID]bool{}
				for _, t := range txs {
					if seen[t.id] {
						why = fmt.Sprintf("tx #%d twice in the block", t.n)
					}
					seen[t.id] = true
					if a := inAncestors(b, t.id); a != nil && why == "" {
						why = fmt.Sprintf("tx #%d (expiry %d) is in ancestor h=%d ts=%d", t.n, t.exp, a.h, a.ts)
					}
				}
				pmu.Lock()
				lag := len(accepted) - 1 - processed
				pmu.Unlock()
				note("verify(h=%d ts=%d parent=h%d txs=%v lag=%d)", b.h, b.ts, parent.h, nums(txs), lag)
				err := curWin().VerifyExpiryReplayProtection(ctx, b)
				if why != "" {
					if dupTried && (lag > 0 || restarted) {
						nontrivial = true
					}
					if err == nil {
						fail("block-repeating-ancestor-tx-verified", "VerifyExpiryReplayProtection accepted block h=%d ts=%d although %s; W=%d, accepter lag %d, restarted=%v; ops=%v", b.h, b.ts, why, W, lag, restarted, trace)
						break
					}
					if !errors.Is(err, validitywindow.ErrDuplicateContainer) {
						s.Probe("repeat_refused_with_other_error")
					}
					continue
				}
				if err != nil {
					s.Probe("block_without_repeat_refused")
					continue
				}
				idx.set(b)
				processing = append(processing, b)
			case k < 7: // engine accept of a processing child of the last accepted block
				last := accepted[len(accepted)-1]
				var cands []*vBlock
				for _, p := range processing {
					if p.parent == last.id {
						cands = append(cands, p)
					}
				}
				if len(cands) == 0 {
					continue
				}
				a := cands[c.Intn(len(cands))]
				accepted = append(accepted, a)
				note("accept(h=%d ts=%d)", a.h, a.ts)
				// reject everything that does not descend from a
				var keep []*vBlock
				for _, p := range processing {
					if p == a {
						continue
					}
					desc := false
					for cur := p; cur != nil && cur.h > 0; cur = all[cur.parent] {
						if cur.parent == a.id {
							desc = true
							break
						}
					}
					if desc {
						keep = append(keep, p)
					} else {
						idx.del(p.id)
					}
				}
				processing = keep
				q <- a
			case k < 9: // builder query
				parent := pickParent()
				ts := parent.ts + gaps[c.Intn(len(gaps))]
				var its []*vItem
				for _, it := range items {
					if ts <= it.exp && it.exp <= ts+W && c.Bool(0.6) {
						its = append(its, it)
					}
				}
				if len(its) == 0 || len(bqs) >= 60 {
					continue
				}
				note("isRepeat(parent=h%d now=%d txs=%v)", parent.h, ts, nums(its))
				bqs <- bq{parent: parent, ts: ts, items: its}
			case c.Bool(0.45): // normal operation starts (after bootstrap or state sync) while accepts are still queued:
				// the window is completed from the last processed block, concurrently with the accepter
				pmu.Lock()
				head := accepted[processed]
				pmu.Unlock()
				note("complete(from h=%d)", head.h)
				s.Probe("complete_while_accepts_queued")
				w := curWin()
				compWg.Add(1)
				s.Go("c09.complete", head.h, func() {
					defer compWg.Done()
					idx.slowFor.Store(simk.GID())
					defer idx.slowFor.Store(0)
					w.Complete(ctx, head)
				})
				compWg.Wait() // one completion at a time; the accepter and the builder keep running meanwhile
			default: // restart: the accepter's backlog is lost, the window is rebuilt from the accepted chain
				pmu.Lock()
				dead = true
				pmu.Unlock()
				close(q)
				accWg.Wait()
				pmu.Lock()
				at := processed
				pmu.Unlock()
				note("restart(window at h=%d, index at h=%d)", accepted[at].h, accepted[len(accepted)-1].h)
				for _, p := range processing {
					idx.del(p.id)
				}
				processing = nil
				// in half of the restarts one chain-index read fails while the window is rebuilt (transient
				// disk error): the node then holds a partial window and, like the VM before it enters normal
				// operation, completes it from the index once reads work again
				readFault := c.Bool(0.5)
				if readFault {
					idx.failIn.Store(int64(1 + c.Intn(4)))
				}
				nw, err := validitywindow.NewTimeValidityWindow[*vItem](ctx, logging.NoLog{}, trace0(), idx, accepted[at], getW)
				idx.failIn.Store(0)
				if err != nil {
					fail("harness", "%v", err)
					break
				}
				if readFault && idx.failed.Load() > 0 {
					s.FaultFired("index-read-error-at-restart")
					reuseP = 0.9
					note("index read error during restart, window completed afterwards")
					if !nw.Complete(ctx, accepted[at]) {
						// the index does not reach back far enough: the VM would refuse normal operation
						s.Probe("window_incomplete_after_restart")
						restarted = true
						winMu.Lock()
						win = nw
						winMu.Unlock()
						startAccepter()
						op = nOps
						continue
					}
				}
				// re-processing of the blocks indexed above the state: verify + accept, in order
				for i := at + 1; i < len(accepted); i++ {
					if err := nw.VerifyExpiryReplayProtection(ctx, accepted[i]); err != nil {
						s.Probe("reprocessing_refuses_accepted_block")
					}
					nw.Accept(accepted[i])
				}
				winMu.Lock()
				win = nw
				winMu.Unlock()
				pmu.Lock()
				processed = len(accepted) - 1
				pmu.Unlock()
				restarted = true
				startAccepter()
			}
		}
		close(q)
		close(bqs)
		accWg.Wait()
		bWg.Wait()
	})
	r.Sample(map[string]any{"kind": "window", "validity_window": W, "ops": trace, "starve_accepter": starve})
	r.Fingerprint("w|%d|%v|%x", W, trace, s.TraceHash())
	if nontrivial {
		r.Nontrivial()
	}
	if v := s.Violation(); v != nil {
		return v
	}
	if viol != nil {
		return viol
	}
	if s.Hung && !s.StepLimit {
		return &simk.Violation{Class: "C09/hang", Detail: "window scenario never finished: " + s.HangInfo}
	}
	return nil
}

func nums(its []*vItem) []int {
	o := make([]int, len(its))
	for i, t := range its {
		o[i] = t.n
	}
	return o
}

func trace0() trace.Tracer { return trace.Noop }

// Package e3 is the node engine: the snow consensus wrapper (and, for other
// checks, complete vm.VM nodes) driven by a simulated snowman engine.
package e3

import (
	"context"
	"encoding/binary"
	"errors"
	"fmt"
	"os"
	"sync"
	"testing"

	"github.com/ava-labs/avalanchego/database"
	"github.com/ava-labs/avalanchego/ids"
	"github.com/ava-labs/avalanchego/snow/engine/common"
	"github.com/ava-labs/avalanchego/snow/engine/snowman/block"
	"github.com/ava-labs/avalanchego/utils/set"

	"github.com/ava-labs/hypersdk/snow"
	"github.com/ava-labs/hypersdk/utils"
)

// ---- light test chain -------------------------------------------------------

type TBlock struct {
	Prnt    ids.ID
	Hght    uint64
	Tmstmp  int64
	Salt    uint32
	Invalid bool
	PCtx    uint64 // P-Chain height of the block's proposer context (snowman++); 0 = the block carries none

	bytes []byte
	id    ids.ID
}

func NewTBlock(parent ids.ID, height uint64, ts int64, salt uint32, invalid bool) *TBlock {
	return NewTBlockCtx(parent, height, ts, salt, invalid, 0)
}

func NewTBlockCtx(parent ids.ID, height uint64, ts int64, salt uint32, invalid bool, pctx uint64) *TBlock {
	b := &TBlock{Prnt: parent, Hght: height, Tmstmp: ts, Salt: salt, Invalid: invalid, PCtx: pctx}
	buf := make([]byte, 0, 32+8+8+4+1)
	buf = append(buf, parent[:]...)
	buf = binary.BigEndian.AppendUint64(buf, height)
	buf = binary.BigEndian.AppendUint64(buf, uint64(ts))
	buf = binary.BigEndian.AppendUint32(buf, salt)
	if invalid {
		buf = append(buf, 1)
	} else {
		buf = append(buf, 0)
	}
	if pctx != 0 {
		buf = binary.BigEndian.AppendUint64(buf, pctx)
	}
	b.bytes = buf
	b.id = utils.ToID(buf)
	return b
}

func ParseTBlock(b []byte) (*TBlock, error) {
	if len(b) != 32+8+8+4+1 && len(b) != 32+8+8+4+1+8 {
		return nil, fmt.Errorf("bad test block length %d", len(b))
	}
	var p ids.ID
	copy(p[:], b[:32])
	pctx := uint64(0)
	if len(b) > 53 {
		if pctx = binary.BigEndian.Uint64(b[53:]); pctx == 0 {
			return nil, fmt.Errorf("bad test block context")
		}
	}
	return NewTBlockCtx(p, binary.BigEndian.Uint64(b[32:]), int64(binary.BigEndian.Uint64(b[40:])), binary.BigEndian.Uint32(b[48:]), b[52] == 1, pctx), nil
}

func (b *TBlock) GetID() ids.ID       { return b.id }
func (b *TBlock) GetParent() ids.ID   { return b.Prnt }
func (b *TBlock) GetTimestamp() int64 { return b.Tmstmp }
func (b *TBlock) GetBytes() []byte    { return b.bytes }
func (b *TBlock) GetHeight() uint64   { return b.Hght }
func (b *TBlock) GetContext() *block.Context {
	if b.PCtx == 0 {
		return nil
	}
	return &block.Context{PChainHeight: b.PCtx}
}
func (b *TBlock) String() string { return fmt.Sprintf("tblk(h=%d,salt=%d)", b.Hght, b.Salt) }

// TOut / TAcc wrap the block and remember from which parent value they were derived.
type TOut struct {
	*TBlock
	Parent *TOut
	How    string // genesis | verify | build | sync
}

type TAcc struct {
	*TBlock
	Parent *TAcc
}

type chainCall struct {
	Kind   string // verify | accept | build
	Blk    ids.ID
	Height uint64
	Err    bool
	// pointer identity of the parent value handed in
	ParentOut *TOut
	ParentAcc *TAcc
	Out       *TOut
	Acc       *TAcc
}

// memIndex is an in-memory snow.ChainIndex.
type memIndex struct {
	mu      sync.Mutex
	byID    map[ids.ID]*TBlock
	byH     map[uint64]ids.ID
	last    uint64
	hasLast bool
	FailAt  int // fail the n-th UpdateLastAccepted (1-based); 0 = never
	updates int
	// IO, if set, is called when a write starts: the write is an I/O operation during which other
	// threads run (a scheduling point of the simulator)
	IO func(height uint64)
}

func newMemIndex() *memIndex {
	return &memIndex{byID: map[ids.ID]*TBlock{}, byH: map[uint64]ids.ID{}}
}

var errIndexFault = errors.New("injected chain index write error")

func (m *memIndex) UpdateLastAccepted(_ context.Context, b *TBlock) error {
	if m.IO != nil {
		m.IO(b.Hght)
	}
	m.mu.Lock()
	defer m.mu.Unlock()
	m.updates++
	if m.FailAt != 0 && m.updates == m.FailAt {
		return errIndexFault
	}
	m.byID[b.id] = b
	m.byH[b.Hght] = b.id
	m.last, m.hasLast = b.Hght, true
	return nil
}

func (m *memIndex) GetLastAcceptedHeight(context.Context) (uint64, error) {
	m.mu.Lock()
	defer m.mu.Unlock()
	if !m.hasLast {
		return 0, database.ErrNotFound
	}
	return m.last, nil
}

func (m *memIndex) GetBlock(_ context.Context, id ids.ID) (*TBlock, error) {
	m.mu.Lock()
	defer m.mu.Unlock()
	b, ok := m.byID[id]
	if !ok {
		return nil, database.ErrNotFound
	}
	return b, nil
}

func (m *memIndex) GetBlockIDAtHeight(_ context.Context, h uint64) (ids.ID, error) {
	m.mu.Lock()
	defer m.mu.Unlock()
	id, ok := m.byH[h]
	if !ok {
		return ids.Empty, database.ErrNotFound
	}
	return id, nil
}

func (m *memIndex) GetBlockIDHeight(_ context.Context, id ids.ID) (uint64, error) {
	m.mu.Lock()
	defer m.mu.Unlock()
	b, ok := m.byID[id]
	if !ok {
		return 0, database.ErrNotFound
	}
	return b.Hght, nil
}

func (m *memIndex) GetBlockByHeight(_ context.Context, h uint64) (*TBlock, error) {
	m.mu.Lock()
	defer m.mu.Unlock()
	id, ok := m.byH[h]
	if !ok {
		return nil, database.ErrNotFound
	}
	return m.byID[id], nil
}

// TChain implements snow.Chain and records every call the wrapper makes.
type TChain struct {
	mu      sync.Mutex
	Index   *memIndex
	Genesis *TBlock
	// start state: the chain may start with state ready (normal) or not ready (state sync)
	StartReady bool
	// if the node restarts / starts from an index that is ahead of the state: last output height
	Calls    []chainCall
	saltNext uint32
	Now      func() int64
	VM       *snow.VM[*TBlock, *TOut, *TAcc]
	GenOut   *TOut
	GenAcc   *TAcc
	// IO, if set, is called when the chain starts executing a block (execution takes time: a
	// scheduling point of the simulator)
	IO func(what string, height uint64)
}

func (c *TChain) Initialize(ctx context.Context, _ snow.ChainInput, vm *snow.VM[*TBlock, *TOut, *TAcc]) (snow.ChainIndex[*TBlock], *TOut, *TAcc, bool, error) {
	c.VM = vm
	if _, err := c.Index.GetLastAcceptedHeight(ctx); err != nil {
		if err := c.Index.UpdateLastAccepted(ctx, c.Genesis); err != nil {
			return nil, nil, nil, false, err
		}
	}
	c.GenOut = &TOut{TBlock: c.Genesis, How: "genesis"}
	c.GenAcc = &TAcc{TBlock: c.Genesis}
	return c.Index, c.GenOut, c.GenAcc, c.StartReady, nil
}

func (*TChain) SetConsensusIndex(*snow.ConsensusIndex[*TBlock, *TOut, *TAcc]) {}

func (c *TChain) BuildBlock(_ context.Context, _ *block.Context, parent *TOut) (*TBlock, *TOut, error) {
	c.mu.Lock()
	defer c.mu.Unlock()
	c.saltNext++
	b := NewTBlock(parent.id, parent.Hght+1, parent.Tmstmp+1, 1_000_000+c.saltNext, false)
	out := &TOut{TBlock: b, Parent: parent, How: "build"}
	c.Calls = append(c.Calls, chainCall{Kind: "build", Blk: b.id, Height: b.Hght, ParentOut: parent, Out: out})
	return b, out, nil
}

func (*TChain) ParseBlock(_ context.Context, b []byte) (*TBlock, error) { return ParseTBlock(b) }

var errInvalidTBlock = errors.New("test block is marked invalid")

func (c *TChain) VerifyBlock(_ context.Context, parent *TOut, b *TBlock) (*TOut, error) {
	if c.IO != nil {
		c.IO("chain.verify", b.Hght)
	}
	c.mu.Lock()
	defer c.mu.Unlock()
	call := chainCall{Kind: "verify", Blk: b.id, Height: b.Hght, ParentOut: parent}
	if b.Invalid {
		call.Err = true
		c.Calls = append(c.Calls, call)
		return nil, errInvalidTBlock
	}
	out := &TOut{TBlock: b, Parent: parent, How: "verify"}
	call.Out = out
	c.Calls = append(c.Calls, call)
	return out, nil
}

func (c *TChain) AcceptBlock(_ context.Context, parent *TAcc, b *TOut) (*TAcc, error) {
	c.mu.Lock()
	defer c.mu.Unlock()
	acc := &TAcc{TBlock: b.TBlock, Parent: parent}
	c.Calls = append(c.Calls, chainCall{Kind: "accept", Blk: b.id, Height: b.Hght, ParentAcc: parent, Out: b, Acc: acc})
	return acc, nil
}

func (c *TChain) calls() []chainCall {
	c.mu.Lock()
	defer c.mu.Unlock()
	return append([]chainCall{}, c.Calls...)
}

// ---- minimal app sender -----------------------------------------------------

type nullSender struct{}

func (nullSender) SendAppRequest(context.Context, set.Set[ids.NodeID], uint32, []byte) error {
	return nil
}
func (nullSender) SendAppResponse(context.Context, ids.NodeID, uint32, []byte) error { return nil }
func (nullSender) SendAppError(context.Context, ids.NodeID, uint32, int32, string) error {
	return nil
}
func (nullSender) SendAppGossip(context.Context, common.SendConfig, []byte) error { return nil }

// ---- testing.TB without a temporary directory per call ------------------------

// quietTB is handed to snowtest.Context, which asks for a fresh temporary directory on every call;
// with hundreds of thousands of simulated runs per process their removal at process exit takes
// minutes. The chain data directory is not used by any scenario (stores live on in-memory file
// systems), so one directory per process is enough.
type quietTB struct{ testing.TB }

var (
	quietDirOnce sync.Once
	quietDir     string
)

func (q quietTB) TempDir() string {
	quietDirOnce.Do(func() {
		base := os.Getenv("VERIF_OUT")
		if base == "" {
			base = os.TempDir()
		}
		d, err := os.MkdirTemp(base, "snowctx-")
		if err != nil {
			d = q.TB.TempDir()
		}
		quietDir = d
	})
	return quietDir
}

// TB wraps t for snowtest.Context.
func TB(t testing.TB) testing.TB { return quietTB{t} }

package e3

import (
	"context"
	"fmt"
	"time"

	"github.com/ava-labs/avalanchego/ids"
	"github.com/ava-labs/avalanchego/utils/hashing"

	"github.com/ava-labs/hypersdk/chain"
	"github.com/ava-labs/hypersdk/genesis"
	"github.com/ava-labs/hypersdk/verifsim/e2"
	"github.com/ava-labs/hypersdk/verifsim/simk"
)

// c09Node: complete morpheusvm node; replays of included transactions through admission, the
// mempool and the builder, across forks and a restart.
func c09Node(r *simk.Run) *simk.Violation {
	c := r.C
	s := r.NewSim()
	s.KeepLog = simk.WantLog()
	s.Horizon = 40 * 365 * 24 * time.Hour
	fsm := NewFSManager()
	s.FSFn = fsm.Lookup
	var viol *simk.Violation
	fail := func(class, f string, a ...any) {
		if viol == nil {
			viol = &simk.Violation{Class: "C09/" + class, Detail: fmt.Sprintf(f, a...)}
		}
	}
	var trace []string
	note := func(f string, a ...any) { trace = append(trace, fmt.Sprintf(f, a...)) }
	nontrivial := false
	W := []int64{60000, 2000, 5000}[c.Intn(3)]
	nHeights := 2 + c.Intn(5)
	restartAt := 1 + c.Intn(nHeights)
	crash := c.Bool(0.5)
	// big-build variant: at one height the mempool holds more transactions than one builder stream batch
	// (256) while a client keeps re-submitting them (a gossiped or retried transaction) during the build,
	// so the builder's prefetch of the next batch runs concurrently with re-admission
	bigAt := 0
	if c.Bool(0.12) {
		bigAt = 1 + c.Intn(nHeights)
	}

	if bigAt > 0 {
		s.MaxSteps = 600000
	}
	s.Run(r.T, func() {
		ctx := context.Background()
		var live []*Node
		defer func() {
			s.ThawAll()
			s.FreeRun(func() {
				for _, n := range live {
					if n != nil && n.Snow != nil {
						_ = n.Snow.Shutdown(ctx)
					}
				}
			})
		}()
		rules := genesis.NewDefaultRules()
		rules.MinBlockGap = 100
		rules.MinEmptyBlockGap = 100
		rules.ValidityWindow = W
		if bigAt > 0 {
			for i := range rules.MaxBlockUnits {
				rules.MaxBlockUnits[i] *= 20
			}
		}
		sp := e2.Sponsors()
		var alloc []*genesis.CustomAllocation
		for i := 0; i < 3; i++ {
			alloc = append(alloc, &genesis.CustomAllocation{Address: sp[i].Address(), Balance: 1 << 50})
		}
		genesisBytes, err := GenesisFor(rules, alloc)
		if err != nil {
			fail("harness", "%v", err)
			return
		}
		chainID := ids.ID(hashing.ComputeHash256Array(genesisBytes))
		time.Sleep(time.Until(time.Date(2023, 1, 2, 0, 0, 0, 0, time.UTC)))
		cfg := defaultNodeCfg(128)
		if bigAt > 0 {
			cfg["vm"].(map[string]int)["mempoolSponsorSize"] = 2048
		}
		n, err := NewNode(ctx, r.T, fsm, "n1", genesisBytes, cfg, nullSender{})
		live = append(live, n)
		if err != nil {
			fail("harness", "node: %v", err)
			return
		}
		// model: block id -> parent, tx ids
		type mblk struct {
			parent ids.ID
			h      uint64
			txs    map[ids.ID]bool
		}
		gid, err := n.Snow.LastAccepted(ctx)
		if err != nil {
			fail("harness", "%v", err)
			return
		}
		model := map[ids.ID]*mblk{gid: {h: 0, txs: map[ids.ID]bool{}}}
		tip := gid
		inChain := func(from ids.ID, tx ids.ID) (uint64, bool) {
			for cur := model[from]; cur != nil; cur = model[cur.parent] {
				if cur.txs[tx] {
					return cur.h, true
				}
				if cur.h == 0 {
					break
				}
			}
			return 0, false
		}
		var included []*chain.Transaction // txs of accepted blocks
		uniq := uint64(0)
		fresh := func(k int) []*chain.Transaction {
			var out []*chain.Transaction
			now := time.Now().UnixMilli()
			for i := 0; i < k; i++ {
				uniq++
				exp := (now/1000 + 1 + int64(c.Intn(int(W/1000)))) * 1000
				tx, err := TransferTx(chainID, c.Intn(3), c.Intn(3), uint64(1+c.Intn(1000)), exp, []byte(fmt.Sprintf("m%d", uniq)))
				if err != nil {
					fail("harness", "%v", err)
					return nil
				}
				out = append(out, tx)
			}
			return out
		}
		restarted := false
		// build one block on parent; returns nil if the builder has nothing to build
		build := func(parent ids.ID, label string) *SBlock {
			if err := n.Snow.SetPreference(ctx, parent); err != nil {
				fail("harness", "SetPreference: %v", err)
				return nil
			}
			nFresh := c.Intn(3)
			big := bigAt > 0 && int(model[parent].h)+1 == bigAt
			if big {
				nFresh = 140 + c.Intn(200)
			}
			txs := fresh(nFresh)
			if len(txs) > 0 {
				for _, e := range n.VM.Submit(ctx, txs) {
					if e != nil {
						s.Probe("fresh_tx_refused")
					}
				}
			}
			var clientDone chan struct{}
			if big {
				// the client re-submits a seeded selection of the same transactions, in small groups, while
				// the block is being built; every scheduling point of mempool and builder interleaves them
				s.Probe("big_build")
				nontrivial = true
				var groups [][]*chain.Transaction
				for g := 0; g < 6; g++ {
					var grp []*chain.Transaction
					for k := 0; k < 1+c.Intn(12); k++ {
						grp = append(grp, txs[c.Intn(len(txs))])
					}
					groups = append(groups, grp)
				}
				// a late group taken from the second stream batch (what the builder prefetches)
				if len(txs) > 260 {
					groups = append(groups, txs[256:256+4+c.Intn(len(txs)-260)])
				}
				clientDone = make(chan struct{})
				s.Go("client.resubmit", 0, func() {
					defer close(clientDone)
					for _, grp := range groups {
						_ = n.VM.Submit(ctx, grp)
						s.Yield("client.resubmit.next", 0)
					}
				})
			}
			// replays through admission: every transaction already on this chain must be refused
			var replays []*chain.Transaction
			for _, tx := range included {
				if _, on := inChain(parent, tx.GetID()); on && c.Bool(0.5) {
					replays = append(replays, tx)
				}
			}
			if len(replays) > 0 {
				if restarted {
					nontrivial = true
				}
				for i, e := range n.VM.Submit(ctx, replays) {
					if e == nil {
						h, _ := inChain(parent, replays[i].GetID())
						fail("included-tx-admitted-again", "%s: Submit accepted transaction %s (expiry %d) that block %d of the preferred chain already contains; now=%d W=%d restarted=%v; ops=%v", label, replays[i].GetID(), replays[i].Base.Timestamp, h, time.Now().UnixMilli(), W, restarted, trace)
						return nil
					}
				}
				// ... and behind admission (a transaction that was in the mempool of a node when another
				// node's block included it): the builder must leave it out
				n.VM.Mempool().Add(ctx, replays)
			}
			blk, err := n.Snow.BuildBlock(ctx)
			if clientDone != nil {
				<-clientDone
			}
			if err != nil {
				note("%s: build on h%d: %v", label, model[parent].h, err)
				return nil
			}
			m := &mblk{parent: parent, h: model[parent].h + 1, txs: map[ids.ID]bool{}}
			for _, tx := range blk.Input.StatelessBlock.Txs {
				id := tx.GetID()
				if m.txs[id] {
					fail("tx-twice-in-built-block", "%s: built block %d contains transaction %s twice; ops=%v", label, m.h, id, trace)
					return nil
				}
				if h, on := inChain(parent, id); on {
					fail("builder-included-ancestor-tx", "%s: the block built at height %d contains transaction %s, which ancestor block %d already contains; W=%d restarted=%v; ops=%v", label, m.h, id, h, W, restarted, trace)
					return nil
				}
				m.txs[id] = true
			}
			note("%s: built h%d with %d txs (%d replays offered)", label, m.h, len(m.txs), len(replays))
			if err := blk.Verify(ctx); err != nil {
				s.Probe("built_block_fails_verification")
				note("verify failed: %v", err)
				return nil
			}
			model[blk.ID()] = m
			return blk
		}

		for h := 1; h <= nHeights && viol == nil; h++ {
			time.Sleep(time.Duration(150+c.Intn(3)*500) * time.Millisecond)
			a := build(tip, fmt.Sprintf("h%d", h))
			if viol != nil {
				return
			}
			if a == nil {
				continue
			}
			chosen := a
			if c.Bool(0.3) {
				// a sibling on the same parent: transactions of block a may legitimately appear in it
				time.Sleep(time.Duration(100+c.Intn(2)*300) * time.Millisecond)
				b := build(tip, fmt.Sprintf("h%d-sibling", h))
				if viol != nil {
					return
				}
				if b != nil && b.ID() != a.ID() {
					s.Probe("fork")
					other := b
					if c.Bool(0.5) {
						chosen, other = b, a
					}
					if err := n.Snow.SetPreference(ctx, chosen.ID()); err != nil {
						fail("harness", "%v", err)
						return
					}
					if err := chosen.Accept(ctx); err != nil {
						fail("harness", "Accept: %v", err)
						return
					}
					if err := other.Reject(ctx); err != nil {
						fail("harness", "Reject: %v", err)
						return
					}
					goto accepted
				}
			}
			if err := n.Snow.SetPreference(ctx, chosen.ID()); err != nil {
				fail("harness", "%v", err)
				return
			}
			if err := chosen.Accept(ctx); err != nil {
				fail("harness", "Accept: %v", err)
				return
			}
		accepted:
			tip = chosen.ID()
			included = append(included, chosen.Input.StatelessBlock.Txs...)
			note("accepted h%d", model[tip].h)
			if h == restartAt {
				if crash {
					// quiescence first; the scheduler decides how far the accepter got when the node dies
					s.Yield("c09.crashpoint", uint64(h))
					frozen := s.FreezeParked()
					s.FaultFired("crash")
					note("crash (frozen %v)", frozen)
					clone, err := CloneFS(fsm.Get(n.Dir), n.Dir)
					if err != nil {
						fail("harness", "%v", err)
						return
					}
					fsm.Set(n.Dir, clone)
				} else {
					var sderr error
					s.Settle() // background tasks reach their idle state under the scheduler before the teardown runs unscheduled
					s.FreeRun(func() { sderr = n.Snow.Shutdown(ctx) })
					if sderr != nil {
						fail("harness", "shutdown: %v", sderr)
						return
					}
					note("clean restart")
					// Shutdown does not close the accepted-block subscriptions (the indexer's database keeps
					// its lock): like a process exit, only the files survive
					clone, err := CloneFS(fsm.Get(n.Dir), n.Dir)
					if err != nil {
						fail("harness", "%v", err)
						return
					}
					fsm.Set(n.Dir, clone)
				}
				n2, err := NewNode(ctx, r.T, fsm, "n1", genesisBytes, cfg, nullSender{})
				live = append(live, n2)
				if err != nil {
					fail("harness", "restart: %v", err)
					return
				}
				la, err := n2.Snow.LastAccepted(ctx)
				if err != nil || la != tip {
					fail("harness", "after restart LastAccepted=%s (%v), want %s", la, err, tip)
					return
				}
				n = n2
				restarted = true
			}
		}
		s.Settle() // the accepter has worked off its queue before the scenario ends
	})
	r.Sample(map[string]any{"kind": "node", "validity_window": W, "heights": nHeights, "restart_after_height": restartAt, "crash": crash, "ops": trace})
	r.Fingerprint("n|%d|%d|%d|%v|%v|%x", W, nHeights, restartAt, crash, trace, s.TraceHash())
	if nontrivial {
		r.Nontrivial()
	}
	if v := s.Violation(); v != nil {
		return v
	}
	if viol != nil {
		return viol
	}
	if s.Hung && !s.StepLimit {
		return &simk.Violation{Class: "C09/hang", Detail: "node scenario never finished: " + s.HangInfo}
	}
	return nil
}

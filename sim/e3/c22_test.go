package e3

import (
	"context"
	"encoding/binary"
	"errors"
	"fmt"
	"sync"
	"time"

	"github.com/ava-labs/avalanchego/database"
	"github.com/ava-labs/avalanchego/ids"
	"github.com/ava-labs/avalanchego/utils/logging"

	"github.com/ava-labs/hypersdk/internal/validitywindow"
	"github.com/ava-labs/hypersdk/utils"
	"github.com/ava-labs/hypersdk/verifsim/simk"
)

func init() {
	register(&simk.Prop{
		ID:    "C22",
		Level: "exploration",
		Rule: "seeded backfills: a true chain of 3..24 blocks (block gaps from {0,1,W/3,W,W+1}, 0..2 transactions each with expiries valid at their block) and a forged chain (same heights and timestamps, other transactions, hash-linked among themselves and to the true chain below a fork height); the syncing node holds the target and 0..3 of its ancestors, the real Syncer + BlockFetcherClient + TimeValidityWindow run against 1..4 simulated peers chosen round-robin, each request answered by a pre-drawn behaviour: honest (the real BlockFetcherHandler over the true chain), error, time-out (slow), empty, truncated, reordered, duplicated, forged from the start, honest prefix then forged, garbage bytes in the middle, answer for another height, the genesis block alone or after a linked prefix; an eighth of the runs starts with an outage of 10..30 consecutive answers with nothing usable; the engine meanwhile feeds 0..3 newer blocks (UpdateSyncTarget) at seeded simulated times; " +
			"oracle: every block saved to the block store is the true ancestor at its height, saved in descending contiguous order below the oldest locally held block, nothing else; after completion a repeat query on the tip marks every transaction of a true ancestor whose block timestamp is >= tip - W and that has not expired, and marks no transaction that occurs only in forged blocks; with at least one honest peer in the rotation the syncer completes within the simulated-time budget (requests x 2.5 s). non-trivial = >=1 forged/garbage/reordered answer and >=2 blocks fetched; distinct = scenario hashes",
		Exec:        c22,
		Real:        []string{"internal/validitywindow.Syncer (Start, UpdateSyncTarget, Wait)", "internal/validitywindow.BlockFetcherClient", "internal/validitywindow.BlockFetcherHandler (honest peers)", "internal/validitywindow.TimeValidityWindow", "canoto request/response encoding"},
		Stub:        []string{"transport (direct call per request, behaviour drawn from the tape)", "peer sampler (round-robin)", "block format and parser (hash-linked test blocks)", "block store (recording)", "clock (simulated; request time-outs and back-off run on it)"},
		Assumptions: []string{"a forged block cannot collide with a true block id (ids are hashes of the bytes)"},
	})
}

// wBlock: a hash-linked test block with real bytes.
type wBlock struct {
	parent ids.ID
	h      uint64
	ts     int64
	txs    []*vItem
	bytes  []byte
	id     ids.ID
}

func newWBlock(parent ids.ID, h uint64, ts int64, txs []*vItem) *wBlock {
	b := &wBlock{parent: parent, h: h, ts: ts, txs: txs}
	buf := append([]byte{'W'}, parent[:]...)
	buf = binary.BigEndian.AppendUint64(buf, h)
	buf = binary.BigEndian.AppendUint64(buf, uint64(ts))
	buf = binary.BigEndian.AppendUint32(buf, uint32(len(txs)))
	for _, t := range txs {
		buf = append(buf, t.id[:]...)
		buf = binary.BigEndian.AppendUint64(buf, uint64(t.exp))
		buf = binary.BigEndian.AppendUint32(buf, uint32(t.n))
	}
	b.bytes = buf
	b.id = utils.ToID(buf)
	return b
}

func parseWBlock(raw []byte) (*wBlock, error) {
	if len(raw) < 1+32+8+8+4 || raw[0] != 'W' {
		return nil, errors.New("not a test block")
	}
	var p ids.ID
	copy(p[:], raw[1:33])
	h := binary.BigEndian.Uint64(raw[33:])
	ts := int64(binary.BigEndian.Uint64(raw[41:]))
	n := int(binary.BigEndian.Uint32(raw[49:]))
	rest := raw[53:]
	if len(rest) != n*(32+8+4) {
		return nil, errors.New("bad test block length")
	}
	var txs []*vItem
	for i := 0; i < n; i++ {
		var id ids.ID
		copy(id[:], rest[:32])
		txs = append(txs, &vItem{id: id, exp: int64(binary.BigEndian.Uint64(rest[32:])), n: int(binary.BigEndian.Uint32(rest[40:]))})
		rest = rest[44:]
	}
	return newWBlock(p, h, ts, txs), nil
}

func (b *wBlock) GetID() ids.ID           { return b.id }
func (b *wBlock) GetParent() ids.ID       { return b.parent }
func (b *wBlock) GetTimestamp() int64     { return b.ts }
func (b *wBlock) GetHeight() uint64       { return b.h }
func (b *wBlock) GetBytes() []byte        { return b.bytes }
func (b *wBlock) GetContainers() []*vItem { return b.txs }
func (b *wBlock) String() string          { return fmt.Sprintf("wblk(h=%d,ts=%d)", b.h, b.ts) }
func (b *wBlock) Contains(id ids.ID) bool {
	for _, t := range b.txs {
		if t.id == id {
			return true
		}
	}
	return false
}

type wParser struct{}

func (wParser) ParseBlock(_ context.Context, raw []byte) (*wBlock, error) { return parseWBlock(raw) }

// wStore: what the syncing node holds; records every SaveHistorical.
type wStore struct {
	mu    sync.Mutex
	byID  map[ids.ID]*wBlock
	saved []*wBlock
}

func (s *wStore) GetExecutionBlock(_ context.Context, id ids.ID) (validitywindow.ExecutionBlock[*vItem], error) {
	s.mu.Lock()
	defer s.mu.Unlock()
	b, ok := s.byID[id]
	if !ok {
		return nil, database.ErrNotFound
	}
	return b, nil
}

func (s *wStore) SaveHistorical(b *wBlock) error {
	s.mu.Lock()
	defer s.mu.Unlock()
	s.saved = append(s.saved, b)
	s.byID[b.id] = b
	return nil
}

// wChainRetriever serves a chain by height (an honest peer's block store).
type wChainRetriever struct{ chain []*wBlock }

func (r wChainRetriever) GetBlockByHeight(_ context.Context, h uint64) (*wBlock, error) {
	if h >= uint64(len(r.chain)) {
		return nil, database.ErrNotFound
	}
	return r.chain[h], nil
}

type wSampler struct {
	mu    sync.Mutex
	peers []ids.NodeID
	next  int
}

func (s *wSampler) Sample(context.Context, int) []ids.NodeID {
	s.mu.Lock()
	defer s.mu.Unlock()
	if len(s.peers) == 0 {
		return nil
	}
	p := s.peers[s.next%len(s.peers)]
	s.next++
	return []ids.NodeID{p}
}

type wNet struct {
	mu        sync.Mutex
	behaviour []int // per request number; beyond the list: honest
	honest    *validitywindow.BlockFetcherHandler[*wBlock]
	trueChain []*wBlock
	forged    []*wBlock
	requests  int
	log       []string
	bad       int
	fired     func(kind string) // fault accounting (a faulty answer was actually served)
}

const (
	bHonest = iota
	bError
	bTimeout
	bEmpty
	bTruncated
	bReordered
	bDuplicated
	bForged
	bPrefixThenForged
	bGarbageMiddle
	bOtherHeight
	bGenesisOnly
	bPrefixThenGenesis
	nBehaviours
)

var bNames = []string{"honest", "error", "timeout", "empty", "truncated", "reordered", "duplicated", "forged", "prefix-then-forged", "garbage-middle", "other-height", "genesis-only", "prefix-then-genesis"}

func (n *wNet) FetchBlocksFromPeer(ctx context.Context, peer ids.NodeID, req *validitywindow.BlockFetchRequest) (*validitywindow.BlockFetchResponse, error) {
	n.mu.Lock()
	k := n.requests
	n.requests++
	b := bHonest
	if k < len(n.behaviour) {
		b = n.behaviour[k]
	}
	n.log = append(n.log, fmt.Sprintf("req%d(h=%d,min=%d)->%s", k, req.BlockHeight, req.MinTimestamp, bNames[b]))
	if b != bHonest && n.fired != nil {
		n.fired("peer_" + bNames[b])
	}
	if b != bHonest && b != bError && b != bTimeout && b != bEmpty && b != bTruncated {
		n.bad++
	}
	n.mu.Unlock()
	honest := func(r *validitywindow.BlockFetchRequest) ([][]byte, error) {
		out, appErr := n.honest.AppRequest(ctx, peer, time.Now(), r.MarshalCanoto())
		if appErr != nil {
			return nil, appErr
		}
		resp := new(validitywindow.BlockFetchResponse)
		if err := resp.UnmarshalCanoto(out); err != nil {
			return nil, err
		}
		return resp.Blocks, nil
	}
	forgedFrom := func(h uint64, cnt int) [][]byte {
		var o [][]byte
		for i := 0; i < cnt && h < uint64(len(n.forged)); i++ {
			o = append(o, n.forged[h].bytes)
			if h == 0 {
				break
			}
			h--
		}
		return o
	}
	switch b {
	case bError:
		return nil, errors.New("peer error")
	case bTimeout:
		select {
		case <-ctx.Done():
			return nil, ctx.Err()
		case <-time.After(5 * time.Second):
			return nil, errors.New("late")
		}
	case bEmpty:
		return &validitywindow.BlockFetchResponse{}, nil
	case bForged:
		return &validitywindow.BlockFetchResponse{Blocks: forgedFrom(req.BlockHeight, 4)}, nil
	case bGenesisOnly:
		// the (true) genesis block, which is not the block that was asked for
		if req.BlockHeight > 0 {
			return &validitywindow.BlockFetchResponse{Blocks: [][]byte{n.trueChain[0].bytes}}, nil
		}
	}
	blocks, err := honest(req)
	if err != nil {
		return nil, err
	}
	switch b {
	case bTruncated:
		if len(blocks) > 1 {
			blocks = blocks[:1+len(blocks)/2]
		}
	case bReordered:
		if len(blocks) > 1 {
			blocks[0], blocks[len(blocks)-1] = blocks[len(blocks)-1], blocks[0]
		}
	case bDuplicated:
		if len(blocks) > 0 {
			blocks = append([][]byte{blocks[0], blocks[0]}, blocks[1:]...)
		}
	case bPrefixThenForged:
		keep := 1
		if len(blocks) < keep {
			keep = len(blocks)
		}
		if req.BlockHeight >= uint64(keep) {
			blocks = append(append([][]byte{}, blocks[:keep]...), forgedFrom(req.BlockHeight-uint64(keep), 3)...)
		}
	case bPrefixThenGenesis:
		// a linked prefix, then genesis instead of the next ancestor
		if len(blocks) > 1 && req.BlockHeight > uint64(len(blocks)) {
			blocks = append(append([][]byte{}, blocks[:1+len(blocks)/2]...), n.trueChain[0].bytes)
		}
	case bGarbageMiddle:
		if len(blocks) > 1 {
			blocks = append(append(append([][]byte{}, blocks[:1]...), []byte("garbage")), blocks[1:]...)
		} else {
			blocks = [][]byte{[]byte("garbage")}
		}
	case bOtherHeight:
		if req.BlockHeight > 2 {
			r2 := *req
			r2.BlockHeight = req.BlockHeight - 2
			if bl, err := honest(&r2); err == nil {
				blocks = bl
			}
		}
	}
	return &validitywindow.BlockFetchResponse{Blocks: blocks}, nil
}

func c22(r *simk.Run) *simk.Violation {
	c := r.C
	s := r.NewSim()
	s.KeepLog = simk.WantLog()
	s.Horizon = 24 * time.Hour
	var viol *simk.Violation
	fail := func(class, f string, a ...any) {
		if viol == nil {
			viol = &simk.Violation{Class: "C22/" + class, Detail: fmt.Sprintf(f, a...)}
		}
	}
	// ---- everything is drawn before the bubble starts: goroutines of the client and the syncer
	// never touch the tape
	W := []int64{30, 10, 3, 100}[c.Intn(4)]
	n := 3 + c.Intn(22)
	gaps := []int64{1, 0, W / 3, W, W + 1}
	nextTx := 0
	mkTxs := func(ts int64, base int) []*vItem {
		var o []*vItem
		for k := c.Intn(3); k > 0; k-- {
			nextTx++
			o = append(o, &vItem{id: ids.Empty.Prefix(uint64(base + nextTx)), exp: ts + int64(c.Intn(int(W)+1)), n: base + nextTx})
		}
		return o
	}
	trueChain := []*wBlock{newWBlock(ids.Empty, 0, 1000, nil)}
	for h := 1; h <= n; h++ {
		p := trueChain[h-1]
		ts := p.ts + gaps[c.Intn(len(gaps))]
		trueChain = append(trueChain, newWBlock(p.id, uint64(h), ts, mkTxs(ts, 0)))
	}
	forkAt := c.Intn(n) // forged[h] == true[h] for h <= forkAt
	forged := append([]*wBlock{}, trueChain[:forkAt+1]...)
	for h := forkAt + 1; h <= n; h++ {
		p := forged[h-1]
		forged = append(forged, newWBlock(p.id, uint64(h), trueChain[h].ts, mkTxs(trueChain[h].ts, 100000)))
	}
	fwd := c.Intn(4) // newer blocks the engine accepts during the backfill
	if fwd > n-1 {
		fwd = n - 1
	}
	target := 1 + c.Intn(n-fwd) // height of the initial sync target (>=1)
	local := c.Intn(4)          // ancestors of the target already held locally
	if local > target-1 {
		local = target - 1
	}
	if local < 0 {
		local = 0
	}
	nPeers := 1 + c.Intn(4)
	nReq := c.Intn(14)
	// an eighth of the runs: a long outage first, 10..30 consecutive requests without one honest answer
	// (every peer down, slow or hostile for a while), then service resumes
	outage := c.Bool(0.125)
	if outage {
		nReq = 10 + c.Intn(21)
	}
	behaviour := make([]int, nReq)
	for i := range behaviour {
		if !outage && c.Bool(0.35) {
			behaviour[i] = bHonest
		} else {
			behaviour[i] = 1 + c.Intn(nBehaviours-1)
			if outage {
				behaviour[i] = []int{bError, bEmpty, bForged, bTimeout, bError, bEmpty}[c.Intn(6)] // nothing usable
			}
		}
	}
	fwdDelay := make([]time.Duration, fwd)
	for i := range fwdDelay {
		fwdDelay[i] = time.Duration(137*(1+c.Intn(40))) * time.Millisecond
	}
	sample := map[string]any{"validity_window": W, "chain_len": n, "block_ts": func() []int64 {
		var o []int64
		for _, b := range trueChain {
			o = append(o, b.ts)
		}
		return o
	}(), "fork_height": forkAt, "target": target, "local_ancestors": local, "peers": nPeers, "behaviours": func() []string {
		var o []string
		for _, b := range behaviour {
			o = append(o, bNames[b])
		}
		return o
	}(), "newer_blocks_during_backfill": fwd}
	var netLog []string
	nontrivial := false

	s.Run(r.T, func() {
		ctx := context.Background()
		store := &wStore{byID: map[ids.ID]*wBlock{}}
		for h := target - local; h <= target; h++ {
			store.byID[trueChain[h].id] = trueChain[h]
		}
		getW := func(int64) int64 { return W }
		// a node that state-synced starts its window empty, with no block: the syncer populates it
		win, err := validitywindow.NewTimeValidityWindow[*vItem](ctx, logging.NoLog{}, trace0(), store, trueChain[target], getW)
		if err != nil {
			fail("harness", "%v", err)
			return
		}
		net := &wNet{behaviour: behaviour, honest: validitywindow.NewBlockFetcherHandler[*wBlock](wChainRetriever{trueChain}), trueChain: trueChain, forged: forged, fired: s.FaultFired}
		sampler := &wSampler{}
		for i := 0; i < nPeers; i++ {
			sampler.peers = append(sampler.peers, ids.BuildTestNodeID([]byte{byte(i + 1)}))
		}
		client := validitywindow.NewBlockFetcherClient[*wBlock](net, wParser{}, sampler)
		syncer := validitywindow.NewSyncer[*vItem, *wBlock](store, win, client, getW)
		if err := syncer.Start(ctx, trueChain[target]); err != nil {
			fail("start-fails", "%v", err)
			return
		}
		tip := target
		for i := 0; i < fwd; i++ {
			time.Sleep(fwdDelay[i])
			tip++
			store.mu.Lock()
			store.byID[trueChain[tip].id] = trueChain[tip]
			store.mu.Unlock()
			if err := syncer.UpdateSyncTarget(ctx, trueChain[tip]); err != nil {
				fail("update-target-fails", "%v", err)
				return
			}
		}
		// completion within the budget: after the pre-drawn answers every peer is honest
		budget := time.Duration(nReq+n+4)*2500*time.Millisecond + 137*time.Millisecond // off the 500 ms grid of the client's retries
		wctx, cancel := context.WithTimeout(ctx, budget)
		werr := syncer.Wait(wctx)
		cancel()
		net.mu.Lock()
		netLog = append([]string{}, net.log...)
		requests, bad := net.requests, net.bad
		net.mu.Unlock()
		if werr != nil {
			fail("backfill-does-not-complete", "the syncer did not complete within %v of simulated time after %d requests although every peer answers honestly from request %d on: %v; requests=%v", budget, requests, nReq, werr, netLog)
			_ = syncer.Close()
			return
		}
		_ = syncer.Close()
		s.Settle()
		// ---- oracle 1: saved blocks
		store.mu.Lock()
		saved := append([]*wBlock{}, store.saved...)
		store.mu.Unlock()
		want := target - local - 1
		for i, b := range saved {
			if want < 0 || b.h != uint64(want) || b.id != trueChain[want].id {
				fail("foreign-block-saved", "historical save #%d is block h=%d id=%s; the true ancestor expected at this point is h=%d id=%s; requests=%v", i, b.h, b.id, want, trueChain[max(want, 0)].id, netLog)
				return
			}
			want--
		}
		if bad > 0 && len(saved) >= 2 {
			nontrivial = true
		}
		// ---- oracle 2: tracked transactions
		var universe []*vItem
		for _, b := range trueChain[1:] {
			universe = append(universe, b.txs...)
		}
		nTrue := len(universe)
		for _, b := range forged[forkAt+1:] {
			universe = append(universe, b.txs...)
		}
		if len(universe) > 0 {
			bits, err := win.IsRepeat(ctx, trueChain[tip], trueChain[tip].ts, universe)
			if err != nil {
				fail("repeat-query-fails", "%v", err)
				return
			}
			oldest := trueChain[tip].ts - W
			idx := 0
			for h := 1; h <= n; h++ {
				for _, t := range trueChain[h].txs {
					if h <= tip && trueChain[h].ts >= oldest && t.exp >= trueChain[tip].ts && !bits.Contains(idx) {
						fail("ancestor-tx-not-tracked", "after the backfill completed, tx #%d of true ancestor h=%d (ts %d, expiry %d) is not reported as a repeat at the tip h=%d ts=%d, W=%d; saved=%d blocks; requests=%v", t.n, h, trueChain[h].ts, t.exp, tip, trueChain[tip].ts, W, len(saved), netLog)
						return
					}
					idx++
				}
			}
			for i := nTrue; i < len(universe); i++ {
				if bits.Contains(i) {
					fail("forged-tx-tracked", "tx #%d occurs only in forged blocks but is reported as a repeat; requests=%v", universe[i].n, netLog)
					return
				}
			}
		}
	})
	sample["requests"] = netLog
	r.Sample(sample)
	r.Fingerprint("%v|%v", sample, netLog)
	if nontrivial {
		r.Nontrivial()
	}
	if v := s.Violation(); v != nil {
		return v
	}
	if viol != nil {
		return viol
	}
	if s.Hung && !s.StepLimit {
		return &simk.Violation{Class: "C22/hang", Detail: "scenario never finished: " + s.HangInfo}
	}
	return nil
}

package e3

import (
	"bytes"
	"context"
	"fmt"
	"runtime/debug"
	"strings"
	"time"

	"github.com/ava-labs/avalanchego/ids"
	"github.com/ava-labs/avalanchego/utils/hashing"

	"github.com/ava-labs/hypersdk/chain"
	"github.com/ava-labs/hypersdk/genesis"
	"github.com/ava-labs/hypersdk/verifsim/e2"
	"github.com/ava-labs/hypersdk/verifsim/simk"
)

func init() {
	register(&simk.Prop{
		ID:    "C18",
		Level: "fault_enumeration",
		Rule: "a seeded chain of 2..5 blocks (0..3 morpheusvm transfers each) is produced by a reference node that is never faulted (complete vm.VM + snow.VM + merkledb + real pebble on an in-memory file system); a victim node then accepts the chain faster than it processes it (the async accepter only advances when the simulator hands it scheduling tokens) and is crashed at a point (a, j): after the engine's a-th Accept returned and after the accepter advanced exactly j scheduling steps through the accept pipeline (dequeue, execution-results write, state commit, subscriber notification). One crash point is taken per run, drawn from the tape: a in 1..N, j in 0..(5a+1); the thorough tier's runs cover the (a, j) grid of each chain many times over. The crashed incarnation's tasks are frozen, its durable files are copied and a fresh process incarnation is started on them; " +
			"oracle: restart succeeds; last accepted = block a; state root and last execution results equal the reference node's at that height; accepted notifications before and after the restart cover 1..a with increasing heights in each incarnation; the node then accepts the rest of the chain and ends at the reference root. non-trivial = >=2 accepted blocks were queued unprocessed at the crash or the crash hit the middle of the accept pipeline; distinct = (chain, crash point) hashes",
		Exec:        c18,
		Real:        []string{"vm.VM (Initialize, extractLatestOutputBlock, AcceptBlock, Submit, BuildBlock, VerifyBlock)", "snow.VM + StatefulBlock (Accept queue, async accepter, reprocessFromOutputToInput)", "chain.Processor/Builder/Accepter", "chainindex on pebble", "merkledb on pebble", "indexer and other default options", "examples/morpheusvm"},
		Stub:        []string{"consensus engine (drives Parse/Verify/Accept in order)", "file system (pebble vfs.MemFS, copied at the crash)", "clock", "network (no peers)", "goroutine scheduling"},
		Assumptions: []string{"crash points are the simulator's scheduling points: between engine calls and at the yield points inside the accept pipeline; every store write is synchronous, so the files at such a point are exactly the durable state"},
	})
}

func defaultNodeCfg(acceptedCache int) map[string]any {
	return map[string]any{
		"snowvm": map[string]int{"parsedBlockCacheSize": 128, "acceptedBlockWindowCache": acceptedCache},
		// the default 2 GiB value cache makes merkledb's rebuild after an unclean shutdown allocate a
		// 2.4 GB operation buffer; the simulated nodes run with small caches
		"vm": map[string]int{"valueNodeCacheSize": 4 << 20, "intermediateNodeCacheSize": 4 << 20, "stateIntermediateWriteBufferSize": 1 << 20, "stateIntermediateWriteBatchSize": 1 << 18},
	}
}

func c18(r *simk.Run) *simk.Violation {
	c := r.C
	s := r.NewSim()
	s.KeepLog = simk.WantLog()
	s.Horizon = 40 * 365 * 24 * time.Hour
	fsm := NewFSManager()
	s.FSFn = fsm.Lookup
	var viol *simk.Violation
	fail := func(class, f string, a ...any) {
		if viol == nil {
			viol = &simk.Violation{Class: "C18/" + class, Detail: fmt.Sprintf(f, a...)}
		}
	}
	var sample map[string]any
	nontrivial := false
	gatePrefixes := []string{"snow.accepter"} // the gate follows the accepter goroutine from its first dequeue on

	s.Run(r.T, func() {
		ctx := context.Background()
		var live []*Node // incarnations that must be shut down when the scenario ends
		defer func() {
			// frozen tasks of the crashed incarnation unwind first; then every incarnation (also the
			// crashed one, whose stores and tickers are still open) is shut down on the Go scheduler
			s.KillFrozen()
			s.FreeRun(func() {
				for _, n := range live {
					if n != nil && n.Snow != nil {
						_ = n.Snow.Shutdown(ctx)
					}
				}
			})
		}()
		rules := genesis.NewDefaultRules()
		rules.MinBlockGap = 100
		rules.MinEmptyBlockGap = 100
		sp := e2.Sponsors()
		var alloc []*genesis.CustomAllocation
		for i := 0; i < 3; i++ {
			alloc = append(alloc, &genesis.CustomAllocation{Address: sp[i].Address(), Balance: 1 << 50})
		}
		genesisBytes, err := GenesisFor(rules, alloc)
		if err != nil {
			fail("harness", "%v", err)
			return
		}
		chainID := ids.ID(hashing.ComputeHash256Array(genesisBytes))
		// the genesis block's timestamp is 2023-01-01: move the simulated clock past it
		time.Sleep(time.Until(time.Date(2023, 1, 2, 0, 0, 0, 0, time.UTC)))
		acceptedCache := []int{128, 2, 4}[c.Intn(3)]
		cfg := defaultNodeCfg(acceptedCache)

		// ---- reference node produces the chain
		ref, err := NewNode(ctx, r.T, fsm, "ref", genesisBytes, cfg, nullSender{})
		live = append(live, ref)
		if err != nil {
			fail("harness", "reference node: %v", err)
			return
		}
		n := 2 + c.Intn(4)
		type refBlock struct {
			bytes   []byte
			id      ids.ID
			root    ids.ID
			results []byte
			txs     int
		}
		blocks := []refBlock{}
		uniq := uint64(0)
		for h := 1; h <= n; h++ {
			time.Sleep(time.Duration(150+c.Intn(3)*500) * time.Millisecond)
			nTx := c.Intn(4)
			var txs []*chain.Transaction
			for i := 0; i < nTx; i++ {
				uniq++
				memo := []byte(fmt.Sprintf("m%d", uniq))
				tx, err := TransferTx(chainID, c.Intn(3), c.Intn(3), uint64(1+c.Intn(1000)), (time.Now().UnixMilli()/1000+5)*1000, memo)
				if err != nil {
					fail("harness", "%v", err)
					return
				}
				txs = append(txs, tx)
			}
			if len(txs) > 0 {
				for _, e := range ref.VM.Submit(ctx, txs) {
					if e != nil {
						fail("harness", "reference Submit: %v", e)
						return
					}
				}
			}
			blk, err := ref.Snow.BuildBlock(ctx)
			if err != nil {
				fail("harness", "reference BuildBlock at height %d: %v", h, err)
				return
			}
			if err := blk.Verify(ctx); err != nil {
				fail("harness", "reference Verify: %v", err)
				return
			}
			if err := ref.Snow.SetPreference(ctx, blk.ID()); err != nil {
				fail("harness", "%v", err)
				return
			}
			if err := blk.SyncAccept(ctx); err != nil {
				fail("harness", "reference Accept: %v", err)
				return
			}
			root, err := blk.Output.View.GetMerkleRoot(ctx)
			if err != nil {
				fail("harness", "%v", err)
				return
			}
			blocks = append(blocks, refBlock{bytes: blk.Bytes(), id: blk.ID(), root: root, results: blk.Output.ExecutionResults.Marshal(), txs: len(blk.Input.StatelessBlock.Txs)})
		}
		var sderr error
		s.FreeRun(func() { sderr = ref.Snow.Shutdown(ctx) })
		if err := sderr; err != nil {
			fail("harness", "reference shutdown: %v", err)
			return
		}
		if got := ref.AcceptedHeights(); len(got) < n {
			fail("harness", "reference notifications %v", got)
			return
		}

		// ---- victim
		a := 1 + c.Intn(n)    // engine accepts before the crash
		j := c.Intn(10*a + 2) // accepter scheduling steps before the crash
		stopBeforeLastNotify := false
		if r.Avoid {
			// stay clear of the recorded findings (restart with the block index ahead of the state):
			// the accepter commits every queued block; the crash lands before or after the last
			// block's subscriber notification
			j = 1 << 20
			stopBeforeLastNotify = c.Bool(0.5)
		}
		sample = map[string]any{"chain_len": n, "txs_per_block": func() []int {
			var o []int
			for _, b := range blocks {
				o = append(o, b.txs)
			}
			return o
		}(), "crash_after_engine_accepts": a, "accepted_cache": acceptedCache}
		s.SetGate(0, gatePrefixes...) // the accepter does not move unless given tokens
		v1, err := NewNode(ctx, r.T, fsm, "victim", genesisBytes, cfg, nullSender{})
		live = append(live, v1)
		if err != nil {
			fail("harness", "victim start: %v", err)
			return
		}
		for h := 1; h <= a; h++ {
			blk, err := v1.Snow.ParseBlock(ctx, blocks[h-1].bytes)
			if err != nil {
				fail("parse-fails", "height %d: %v", h, err)
				return
			}
			if err := blk.Verify(ctx); err != nil {
				fail("verify-fails", "victim cannot verify reference block %d: %v", h, err)
				return
			}
			if err := blk.Accept(ctx); err != nil {
				fail("accept-fails", "victim Accept(%d): %v", h, err)
				return
			}
		}
		// let the accepter advance exactly j scheduling steps (or until it has nothing to do)
		s.Yield("c18.settle", 0) // quiescence: the accepter is parked (or waits for the queue) before it is inspected
		steps := 0
		for ; steps < j; steps++ {
			site, key, ok := s.GatedPos()
			if !ok || (stopBeforeLastNotify && site == "snow.accept.beforeNotify" && key == uint64(a)) {
				break
			}
			s.SetGate(1, gatePrefixes...)
			s.WaitGate()
		}
		s.SetGate(0, gatePrefixes...)
		sample["accepter_steps_before_crash"] = steps
		processed := 0
		for _, h := range v1.AcceptedHeights() {
			if h >= 1 {
				processed++
			}
		}
		queued := a - processed
		if queued >= 2 {
			s.Probe("crash_with_two_or_more_queued_accepts")
			nontrivial = true
		}
		frozen := s.FreezeParked("gate.")
		for _, site := range frozen {
			if site != "snow.accepter.dequeue" {
				nontrivial = true
				s.Probe("crash_inside_accept_pipeline")
			}
		}
		s.FaultFired("crash")
		r.Fingerprint("%v|%d|%d|%d|%v", sample["txs_per_block"], a, steps, acceptedCache, frozen)
		sample["processed_before_crash"] = processed
		sample["frozen_tasks"] = frozen
		// ---- durable state -> new incarnation
		clone, err := CloneFS(fsm.Get(v1.Dir), v1.Dir)
		if err != nil {
			fail("harness", "clone: %v", err)
			return
		}
		fsm.Set(v1.Dir, clone)
		s.SetGate(-1) // the new incarnation's accepter runs freely
		var v2 *Node
		var panicked string
		func() {
			defer func() {
				if p := recover(); p != nil {
					panicked = fmt.Sprintf("%v\n%s", p, debug.Stack())
				}
			}()
			v2, err = NewNode(ctx, r.T, fsm, "victim", genesisBytes, cfg, nullSender{})
		}()
		if panicked != "" {
			cls := "restart-panics"
			if strings.Contains(panicked, "extractLatestOutputBlock") && strings.Contains(panicked, "nil pointer") {
				cls = "restart-panics-with-index-one-ahead-of-state"
			}
			fail(cls, "restart after a crash with %d accepted blocks of which %d were processed (accepter frozen at %v) panicked: %s", a, processed, frozen, firstLines(panicked, 14))
			return
		}
		live = append(live, v2)
		if err != nil {
			cls := "restart-fails"
			if strings.Contains(err.Error(), "cannot extract latest output block from invalid state") {
				cls = "restart-fails-with-index-two-or-more-ahead-of-state"
			}
			fail(cls, "restart after a crash with %d accepted blocks of which %d were processed (accepter frozen at %v) failed: %v", a, processed, frozen, err)
			return
		}
		la, err := v2.Snow.LastAccepted(ctx)
		if err != nil || la != blocks[a-1].id {
			fail("last-accepted-differs", "after restart LastAccepted = (%s, %v), the last block whose acceptance was recorded is height %d (%s)", la, err, a, blocks[a-1].id)
			return
		}
		lab := v2.Snow.LastAcceptedBlock(ctx)
		if lab.Output == nil {
			fail("no-output-after-restart", "last accepted block has no execution output after restart")
			return
		}
		root, err := lab.Output.View.GetMerkleRoot(ctx)
		if err != nil || root != blocks[a-1].root {
			fail("state-root-differs", "after restart the state root at height %d is %s (%v), the never-crashed node has %s", a, root, err, blocks[a-1].root)
			return
		}
		if !bytes.Equal(lab.Output.ExecutionResults.Marshal(), blocks[a-1].results) {
			fail("results-differ", "after restart the last execution results at height %d differ from the never-crashed node's", a)
			return
		}
		// notifications: every accepted block at least once across the restart, in height order per incarnation
		seen := map[uint64]bool{}
		for inc, hs := range [][]uint64{v1.AcceptedHeights(), v2.AcceptedHeights()} {
			for i := range hs {
				seen[hs[i]] = true
				if i > 0 && hs[i] < hs[i-1] { // at-least-once delivery: a repeated height is allowed, a step back is not
					fail("notifications-out-of-order", "incarnation %d delivered accepted blocks in the order %v", inc+1, hs)
					return
				}
			}
		}
		for h := 1; h <= a; h++ {
			if !seen[uint64(h)] {
				fail("accepted-block-never-notified", "accepted block %d was delivered to the subscriber neither before the crash (%v) nor after the restart (%v)", h, v1.AcceptedHeights(), v2.AcceptedHeights())
				return
			}
		}
		// liveness: the rest of the chain
		for h := a + 1; h <= n; h++ {
			blk, err := v2.Snow.ParseBlock(ctx, blocks[h-1].bytes)
			if err != nil {
				fail("parse-fails", "after restart, height %d: %v", h, err)
				return
			}
			if err := blk.Verify(ctx); err != nil {
				fail("verify-fails-after-restart", "height %d: %v", h, err)
				return
			}
			if err := blk.SyncAccept(ctx); err != nil {
				fail("accept-fails-after-restart", "height %d: %v", h, err)
				return
			}
		}
		end := v2.Snow.LastAcceptedBlock(ctx)
		root, err = end.Output.View.GetMerkleRoot(ctx)
		if err != nil || root != blocks[n-1].root {
			fail("final-root-differs", "after accepting the whole chain the root is %s (%v), reference %s", root, err, blocks[n-1].root)
			return
		}
		s.FreeRun(func() { sderr = v2.Snow.Shutdown(ctx) })
		if err := sderr; err != nil {
			fail("shutdown-error", "%v", err)
		}
	})
	r.Sample(sample)
	if nontrivial {
		r.Nontrivial()
	}
	if v := s.Violation(); v != nil {
		return v
	}
	if viol != nil {
		return viol
	}
	if s.StepLimit {
		return nil
	}
	if s.Hung {
		return &simk.Violation{Class: "C18/hang", Detail: fmt.Sprintf("node scenario never finished: parked=[%s] sample=%v", s.HangInfo, sample)}
	}
	return nil
}

func firstLines(s string, n int) string {
	l := strings.Split(s, "\n")
	if len(l) > n {
		l = l[:n]
	}
	return strings.Join(l, "\n")
}

package e3

import (
	"bytes"
	"context"
	"fmt"
	"runtime"
	"runtime/debug"
	"strings"
	"sync"
	"sync/atomic"
	"time"

	"github.com/ava-labs/avalanchego/ids"
	"github.com/ava-labs/avalanchego/utils/hashing"

	"github.com/ava-labs/hypersdk/chain"
	"github.com/ava-labs/hypersdk/genesis"
	"github.com/ava-labs/hypersdk/verifsim/e2"
	"github.com/ava-labs/hypersdk/verifsim/simk"
)

func init() {
	register(&simk.Prop{
		ID:    "C18",
		Level: "fault_enumeration",
		Rule: "a seeded chain of 2..5 blocks (0..3 morpheusvm transfers each) is produced by a reference node that is never faulted (complete vm.VM + snow.VM + merkledb + real pebble on an in-memory file system); a victim node then accepts the chain faster than it processes it: its async accepter only advances when the simulator hands it scheduling tokens. Blocks 1..a-1 are accepted by the engine and the accepter gets j1 steps; block a is then parsed, verified and accepted by an engine thread of its own while engine thread and accepter together get j2 scheduling steps (every yield point of the executor, state views, validity window, accept pipeline, plus the durable writes of the block index and of the execution results, which are scheduling points too); in half of the runs the index write of block a never returns while the accepter keeps running. The node is then crashed: its tasks are frozen wherever they are (inside Verify, inside Accept before or after the index write, between results write, state commit and notification), its files are copied and a fresh incarnation is started on them; one crash point per run, drawn from the tape; " +
			"oracle against the never-crashed node: restart succeeds; last accepted = the last block whose Accept returned, or block a if its Accept was in flight; state root and last execution results equal the reference node's at that height; accepted notifications before and after the restart cover every accepted height, never stepping back within an incarnation; the node then accepts the rest of the chain and ends at the reference root. non-trivial = >=2 accepted blocks were queued unprocessed at the crash or the crash hit the middle of the accept pipeline or of an engine call; distinct = (chain, crash point) hashes",
		Exec:        c18,
		Real:        []string{"vm.VM (Initialize, extractLatestOutputBlock, AcceptBlock, Submit, BuildBlock, VerifyBlock)", "snow.VM + StatefulBlock (Accept queue, async accepter, reprocessFromOutputToInput)", "chain.Processor/Builder/Accepter", "chainindex on pebble", "merkledb on pebble", "indexer and other default options", "examples/morpheusvm"},
		Stub:        []string{"consensus engine (drives Parse/Verify/Accept in order)", "file system (pebble vfs.MemFS, copied at the crash)", "clock", "network (no peers)", "goroutine scheduling"},
		Assumptions: []string{"crash points are the simulator's scheduling points (yield points and the index/results writes); writes below merkledb are not crash points of their own, because merkledb holds its commit locks across them; every store write is synchronous, so the files at a crash point are exactly the durable state; torn writes inside one pebble batch are not modelled"},
	})
}

func defaultNodeCfg(acceptedCache int) map[string]any {
	return map[string]any{
		"snowvm": map[string]int{"parsedBlockCacheSize": 128, "acceptedBlockWindowCache": acceptedCache},
		// the default 2 GiB value cache makes merkledb's rebuild after an unclean shutdown allocate a
		// 2.4 GB operation buffer; the simulated nodes run with small caches
		"vm": map[string]int{"valueNodeCacheSize": 4 << 20, "intermediateNodeCacheSize": 4 << 20, "stateIntermediateWriteBufferSize": 1 << 20, "stateIntermediateWriteBatchSize": 1 << 18},
	}
}

func c18(r *simk.Run) *simk.Violation {
	c := r.C
	s := r.NewSim()
	s.KeepLog = simk.WantLog()
	s.Horizon = 40 * 365 * 24 * time.Hour
	fsm := NewFSManager()
	s.FSFn = fsm.Lookup
	var viol *simk.Violation
	var over atomic.Bool // set at teardown: what a thawed crashed incarnation still does is not judged
	fail := func(class, f string, a ...any) {
		if viol == nil && !over.Load() {
			viol = &simk.Violation{Class: "C18/" + class, Detail: fmt.Sprintf(f, a...)}
		}
	}
	var sample map[string]any
	nontrivial := false
	gatePrefixes := []string{"snow.accepter"} // the gate follows the accepter goroutine from its first dequeue on

	s.Run(r.T, func() {
		ctx := context.Background()
		var live []*Node // incarnations that must be shut down when the scenario ends
		var waitEngine func()
		defer func() {
			// frozen tasks of the crashed incarnation unwind first; then every incarnation (also the
			// crashed one, whose stores and tickers are still open) is shut down on the Go scheduler
			over.Store(true)
			s.ThawAll()
			if waitEngine != nil {
				waitEngine() // the crashed incarnation's engine call finishes before its VM is shut down
			}
			s.FreeRun(func() {
				for _, n := range live {
					if n != nil && n.Snow != nil {
						_ = n.Snow.Shutdown(ctx)
					}
				}
			})
		}()
		rules := genesis.NewDefaultRules()
		rules.MinBlockGap = 100
		rules.MinEmptyBlockGap = 100
		sp := e2.Sponsors()
		var alloc []*genesis.CustomAllocation
		for i := 0; i < 3; i++ {
			alloc = append(alloc, &genesis.CustomAllocation{Address: sp[i].Address(), Balance: 1 << 50})
		}
		genesisBytes, err := GenesisFor(rules, alloc)
		if err != nil {
			fail("harness", "%v", err)
			return
		}
		chainID := ids.ID(hashing.ComputeHash256Array(genesisBytes))
		// the genesis block's timestamp is 2023-01-01: move the simulated clock past it
		time.Sleep(time.Until(time.Date(2023, 1, 2, 0, 0, 0, 0, time.UTC)))
		acceptedCache := []int{128, 2, 4}[c.Intn(3)]
		cfg := defaultNodeCfg(acceptedCache)

		// ---- reference node produces the chain
		ref, err := NewNode(ctx, r.T, fsm, "ref", genesisBytes, cfg, nullSender{})
		live = append(live, ref)
		if err != nil {
			fail("harness", "reference node: %v", err)
			return
		}
		genesisID, err := ref.Snow.LastAccepted(ctx)
		if err != nil {
			fail("harness", "%v", err)
			return
		}
		genesisRoot, err := ref.Snow.LastAcceptedBlock(ctx).Output.View.GetMerkleRoot(ctx)
		if err != nil {
			fail("harness", "%v", err)
			return
		}
		n := 2 + c.Intn(4)
		type refBlock struct {
			bytes   []byte
			id      ids.ID
			root    ids.ID
			results []byte
			txs     int
		}
		blocks := []refBlock{}
		uniq := uint64(0)
		for h := 1; h <= n; h++ {
			time.Sleep(time.Duration(150+c.Intn(3)*500) * time.Millisecond)
			nTx := c.Intn(4)
			var txs []*chain.Transaction
			for i := 0; i < nTx; i++ {
				uniq++
				memo := []byte(fmt.Sprintf("m%d", uniq))
				tx, err := TransferTx(chainID, c.Intn(3), c.Intn(3), uint64(1+c.Intn(1000)), (time.Now().UnixMilli()/1000+5)*1000, memo)
				if err != nil {
					fail("harness", "%v", err)
					return
				}
				txs = append(txs, tx)
			}
			if len(txs) > 0 {
				for _, e := range ref.VM.Submit(ctx, txs) {
					if e != nil {
						fail("harness", "reference Submit: %v", e)
						return
					}
				}
			}
			blk, err := ref.Snow.BuildBlock(ctx)
			if err != nil {
				fail("harness", "reference BuildBlock at height %d: %v", h, err)
				return
			}
			if err := blk.Verify(ctx); err != nil {
				fail("harness", "reference Verify: %v", err)
				return
			}
			if err := ref.Snow.SetPreference(ctx, blk.ID()); err != nil {
				fail("harness", "%v", err)
				return
			}
			if err := blk.SyncAccept(ctx); err != nil {
				fail("harness", "reference Accept: %v", err)
				return
			}
			root, err := blk.Output.View.GetMerkleRoot(ctx)
			if err != nil {
				fail("harness", "%v", err)
				return
			}
			blocks = append(blocks, refBlock{bytes: blk.Bytes(), id: blk.ID(), root: root, results: blk.Output.ExecutionResults.Marshal(), txs: len(blk.Input.StatelessBlock.Txs)})
		}
		var sderr error
		s.Settle() // background tasks reach their idle state under the scheduler before the teardown runs unscheduled
		s.FreeRun(func() { sderr = ref.Snow.Shutdown(ctx) })
		if err := sderr; err != nil {
			fail("harness", "reference shutdown: %v", err)
			return
		}
		if got := ref.AcceptedHeights(); len(got) < n {
			fail("harness", "reference notifications %v", got)
			return
		}

		// ---- victim
		a := 1 + c.Intn(n)     // the engine's a-th Accept is in flight (or has just returned) at the crash
		j1 := c.Intn(10*a + 2) // accepter scheduling steps granted while blocks 1..a-1 are accepted
		j2 := c.Intn(120)      // scheduling steps of the whole node (engine thread and accepter, incl. every
		//                        durable write) granted while block a is parsed, verified and accepted
		// half of the runs: the engine's block-index write of block a does not return (slow disk) while
		// the accepter keeps running; the node dies with that write still in flight
		holdIndexWrite := c.Bool(0.5)
		// a fifth of the other runs die exactly when the engine thread is about to issue its m-th durable
		// write of the block index for block a (the index update may consist of several writes)
		crashAtIndexWrite := 0
		if !holdIndexWrite && c.Bool(0.4) {
			crashAtIndexWrite = 1 + c.Intn(3)
		}
		stopBeforeLastNotify := false
		if r.Avoid {
			j1, j2 = 1<<20, 1<<20
			stopBeforeLastNotify = c.Bool(0.5)
			crashAtIndexWrite = 0
		}
		if crashAtIndexWrite > 0 {
			j2 = 2000
		}
		sample = map[string]any{"chain_len": n, "txs_per_block": func() []int {
			var o []int
			for _, b := range blocks {
				o = append(o, b.txs)
			}
			return o
		}(), "crash_during_or_after_accept_of_block": a, "accepted_cache": acceptedCache, "index_write_of_last_block_never_returns": holdIndexWrite, "crash_before_index_write_number": crashAtIndexWrite}
		// the durable writes of the block index and of the execution results are scheduling points (I/O
		// blocks the writer while other threads run) and so crash points. Writes below merkledb are not:
		// merkledb holds its commit locks across them, and a task parked with a lock held would block
		// the others on a mutex the simulator cannot see.
		diskYield := false
		s.FaultFn = func(site, _ string) error {
			if diskYield && strings.HasPrefix(site, "pebble.") {
				if store := ioWithoutStateLocks(); store != "" {
					s.Yield("disk."+store+"."+site, 0)
				}
			}
			return nil
		}
		s.SetGate(0, gatePrefixes...) // the accepter does not move unless given tokens
		v1, err := NewNode(ctx, r.T, fsm, "victim", genesisBytes, cfg, nullSender{})
		live = append(live, v1)
		if err != nil {
			fail("harness", "victim start: %v", err)
			return
		}
		engineStep := func(h int) bool {
			blk, err := v1.Snow.ParseBlock(ctx, blocks[h-1].bytes)
			if err != nil {
				fail("parse-fails", "height %d: %v", h, err)
				return false
			}
			if err := blk.Verify(ctx); err != nil {
				fail("verify-fails", "victim cannot verify reference block %d: %v", h, err)
				return false
			}
			if err := blk.Accept(ctx); err != nil {
				fail("accept-fails", "victim Accept(%d): %v", h, err)
				return false
			}
			return true
		}
		for h := 1; h < a; h++ {
			if !engineStep(h) {
				return
			}
		}
		s.Yield("c18.settle", 0) // quiescence: the accepter is parked (or waits for the queue) before it is inspected
		steps := 0
		for ; steps < j1; steps++ {
			if _, _, ok := s.GatedPos(); !ok {
				break
			}
			s.SetGate(1, gatePrefixes...)
			s.WaitGate()
		}
		// block a: the engine thread is a task of its own, so that the crash can land inside its calls
		diskYield = true
		acceptReturned := false
		var engWg sync.WaitGroup
		engWg.Add(1)
		waitEngine = engWg.Wait
		s.SetGate(0, append([]string{"go:c18.engine"}, gatePrefixes...)...)
		var engineDone atomic.Bool
		idleRounds := 0
		s.Go("c18.engine", 0, func() {
			defer engWg.Done()
			defer engineDone.Store(true)
			if engineStep(a) {
				acceptReturned = true
			}
		})
		s.Yield("c18.settle", 1)
		if holdIndexWrite {
			s.HoldPrefix = "disk.index."
			j2 = 400
		}
		steps2 := 0
		indexWritesSeen, atIndexWrite := 0, false
		for ; steps2 < j2; steps2++ {
			site, key, ok := s.GatedPos()
			if !ok && !engineDone.Load() && idleRounds < 3 {
				// the engine thread waits for helper goroutines that are not gated (executor, fetcher and
				// signature workers): let them run until they are idle, then look again
				idleRounds++
				s.Settle()
				steps2--
				continue
			}
			idleRounds = 0
			if !ok || (stopBeforeLastNotify && acceptReturned && site == "snow.accept.beforeNotify" && key == uint64(a)) {
				break
			}
			if crashAtIndexWrite > 0 {
				now := false
				for _, gs := range s.GatedSites() {
					now = now || strings.HasPrefix(gs, "disk.index.")
				}
				if now && !atIndexWrite {
					indexWritesSeen++
					if indexWritesSeen == crashAtIndexWrite {
						s.Probe("crash_right_before_an_index_write")
						break
					}
				}
				atIndexWrite = now
			}
			s.SetGate(1, append([]string{"go:c18.engine"}, gatePrefixes...)...)
			s.WaitGate()
		}
		s.SetGate(0, append([]string{"go:c18.engine"}, gatePrefixes...)...)
		s.HoldPrefix = ""
		diskYield = false
		if viol != nil {
			return
		}
		sample["accepter_steps_before_last_block"] = steps
		sample["node_steps_during_last_block"] = steps2
		sample["last_accept_returned"] = acceptReturned
		processed := 0
		for _, h := range v1.AcceptedHeights() {
			if h >= 1 {
				processed++
			}
		}
		done := a - 1
		if acceptReturned {
			done = a
		}
		queued := done - processed
		if queued >= 2 {
			s.Probe("crash_with_two_or_more_queued_accepts")
			nontrivial = true
		}
		frozen := s.FreezeParked("gate.")
		for _, site := range frozen {
			if site != "snow.accepter.dequeue" && !strings.HasPrefix(site, "workers.") {
				nontrivial = true
				s.Probe("crash_inside_accept_pipeline")
			}
			if strings.HasPrefix(site, "disk.") {
				s.Probe("crash_before_a_durable_write")
			}
		}
		if !acceptReturned {
			s.Probe("crash_inside_engine_call")
		}
		s.FaultFired("crash")
		r.Fingerprint("%v|%d|%d|%d|%d|%v", sample["txs_per_block"], a, steps, steps2, acceptedCache, frozen)
		sample["processed_before_crash"] = processed
		sample["frozen_tasks"] = frozen
		// ---- durable state -> new incarnation
		clone, err := CloneFS(fsm.Get(v1.Dir), v1.Dir)
		if err != nil {
			fail("harness", "clone: %v", err)
			return
		}
		fsm.Set(v1.Dir, clone)
		s.SetGate(-1) // the new incarnation's accepter runs freely
		var v2 *Node
		var panicked string
		func() {
			defer func() {
				if p := recover(); p != nil {
					panicked = fmt.Sprintf("%v\n%s", p, debug.Stack())
				}
			}()
			v2, err = NewNode(ctx, r.T, fsm, "victim", genesisBytes, cfg, nullSender{})
		}()
		if panicked != "" {
			cls := "restart-panics"
			if strings.Contains(panicked, "extractLatestOutputBlock") && strings.Contains(panicked, "nil pointer") {
				cls = "restart-panics-with-index-one-ahead-of-state"
			}
			fail(cls, "restart after a crash with %d accepted blocks of which %d were processed (accepter frozen at %v) panicked: %s", a, processed, frozen, firstLines(panicked, 14))
			return
		}
		live = append(live, v2)
		if err != nil {
			cls := "restart-fails"
			if strings.Contains(err.Error(), "cannot extract latest output block from invalid state") {
				cls = "restart-fails-index-and-state-inconsistent"
			}
			fail(cls, "restart after a crash with %d accepted blocks of which %d were processed (accepter frozen at %v) failed: %v", a, processed, frozen, err)
			return
		}
		la, err := v2.Snow.LastAccepted(ctx)
		if err != nil {
			fail("last-accepted-differs", "LastAccepted after restart: %v", err)
			return
		}
		// the engine's last Accept either returned (block a is accepted) or was cut short (a-1, or a if
		// its index update was already durable)
		L := -1
		if la == genesisID {
			L = 0
		}
		for h := 1; h <= n; h++ {
			if blocks[h-1].id == la {
				L = h
			}
		}
		if L != done && L != a {
			fail("last-accepted-differs", "after restart LastAccepted = %s (height %d of the reference chain), but %d Accept calls had returned and Accept(%d) was in flight=%v", la, L, done, a, !acceptReturned)
			return
		}
		sample["last_accepted_after_restart"] = L
		lab := v2.Snow.LastAcceptedBlock(ctx)
		if lab.Output == nil {
			fail("no-output-after-restart", "last accepted block has no execution output after restart")
			return
		}
		wantRoot, wantResults := genesisRoot, []byte(nil)
		if L >= 1 {
			wantRoot, wantResults = blocks[L-1].root, blocks[L-1].results
		}
		root, err := lab.Output.View.GetMerkleRoot(ctx)
		if err != nil || root != wantRoot {
			fail("state-root-differs", "after restart the state root at height %d is %s (%v), the never-crashed node has %s", L, root, err, wantRoot)
			return
		}
		if L >= 1 && !bytes.Equal(lab.Output.ExecutionResults.Marshal(), wantResults) {
			fail("results-differ", "after restart the last execution results at height %d differ from the never-crashed node's", L)
			return
		}
		// notifications: every accepted block at least once across the restart, in height order per incarnation
		seen := map[uint64]bool{}
		for inc, hs := range [][]uint64{v1.AcceptedHeights(), v2.AcceptedHeights()} {
			for i := range hs {
				seen[hs[i]] = true
				if i > 0 && hs[i] < hs[i-1] { // at-least-once delivery: a repeated height is allowed, a step back is not
					fail("notifications-out-of-order", "incarnation %d delivered accepted blocks in the order %v", inc+1, hs)
					return
				}
			}
		}
		for h := 1; h <= L; h++ {
			if !seen[uint64(h)] {
				fail("accepted-block-never-notified", "accepted block %d was delivered to the subscriber neither before the crash (%v) nor after the restart (%v)", h, v1.AcceptedHeights(), v2.AcceptedHeights())
				return
			}
		}
		// liveness: the rest of the chain
		for h := L + 1; h <= n; h++ {
			blk, err := v2.Snow.ParseBlock(ctx, blocks[h-1].bytes)
			if err != nil {
				fail("parse-fails", "after restart, height %d: %v", h, err)
				return
			}
			if err := blk.Verify(ctx); err != nil {
				fail("verify-fails-after-restart", "height %d: %v", h, err)
				return
			}
			if err := blk.SyncAccept(ctx); err != nil {
				fail("accept-fails-after-restart", "height %d: %v", h, err)
				return
			}
		}
		end := v2.Snow.LastAcceptedBlock(ctx)
		root, err = end.Output.View.GetMerkleRoot(ctx)
		if err != nil || root != blocks[n-1].root {
			fail("final-root-differs", "after accepting the whole chain the root is %s (%v), reference %s", root, err, blocks[n-1].root)
			return
		}
		s.Settle() // background tasks reach their idle state under the scheduler before the teardown runs unscheduled
		s.FreeRun(func() { sderr = v2.Snow.Shutdown(ctx) })
		if err := sderr; err != nil {
			fail("shutdown-error", "%v", err)
		}
	})
	r.Sample(sample)
	if nontrivial {
		r.Nontrivial()
	}
	if v := s.Violation(); v != nil {
		return v
	}
	if viol != nil {
		return viol
	}
	if s.StepLimit {
		return nil
	}
	if s.Hung {
		return &simk.Violation{Class: "C18/hang", Detail: fmt.Sprintf("node scenario never finished: parked=[%s] sample=%v", s.HangInfo, sample)}
	}
	return nil
}

func firstLines(s string, n int) string {
	l := strings.Split(s, "\n")
	if len(l) > n {
		l = l[:n]
	}
	return strings.Join(l, "\n")
}

// ioWithoutStateLocks reports whether the current goroutine is writing to the block index or to the
// execution-results store (and not from inside merkledb), and names the store.
func ioWithoutStateLocks() string {
	var pcs [48]uintptr
	n := runtime.Callers(2, pcs[:])
	frames := runtime.CallersFrames(pcs[:n])
	store := ""
	for {
		f, more := frames.Next()
		switch {
		case strings.Contains(f.Function, "/x/merkledb."):
			return ""
		case strings.Contains(f.Function, "hypersdk/chainindex."):
			store = "index"
		case strings.HasSuffix(f.Function, "vm.(*VM).AcceptBlock"):
			store = "results"
		}
		if !more {
			break
		}
	}
	return store
}

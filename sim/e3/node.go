package e3

import (
	"context"
	"encoding/json"
	"fmt"
	"io"
	"os"
	"path/filepath"
	"strings"
	"sync"
	"testing"

	"github.com/ava-labs/avalanchego/ids"
	"github.com/ava-labs/avalanchego/snow/engine/common"
	"github.com/ava-labs/avalanchego/snow/snowtest"
	"github.com/ava-labs/avalanchego/utils/hashing"
	"github.com/ava-labs/avalanchego/utils/logging"
	"github.com/cockroachdb/pebble/vfs"

	"github.com/ava-labs/hypersdk/api"
	"github.com/ava-labs/hypersdk/chain"
	"github.com/ava-labs/hypersdk/event"
	"github.com/ava-labs/hypersdk/examples/morpheusvm/actions"
	mvm "github.com/ava-labs/hypersdk/examples/morpheusvm/vm"
	"github.com/ava-labs/hypersdk/genesis"
	"github.com/ava-labs/hypersdk/snow"
	"github.com/ava-labs/hypersdk/verifsim/e2"
	"github.com/ava-labs/hypersdk/vm"
)

// FSManager hands every node its in-memory file system (pebble's vfs) by data-dir prefix.
type FSManager struct {
	mu sync.Mutex
	fs map[string]vfs.FS
}

func NewFSManager() *FSManager { return &FSManager{fs: map[string]vfs.FS{}} }

func (m *FSManager) Set(prefix string, fs vfs.FS) {
	m.mu.Lock()
	m.fs[prefix] = fs
	m.mu.Unlock()
}

func (m *FSManager) Get(prefix string) vfs.FS {
	m.mu.Lock()
	defer m.mu.Unlock()
	return m.fs[prefix]
}

// Lookup is installed as the simulator's FS hook.
func (m *FSManager) Lookup(dir string) any {
	m.mu.Lock()
	defer m.mu.Unlock()
	for p, fs := range m.fs {
		if strings.HasPrefix(dir, p) {
			return fs
		}
	}
	return nil
}

// CloneFS copies every file below root (except lock files) into a fresh in-memory file system:
// the durable state a restarted process finds. All writes of the hypersdk stores are synchronous,
// and clones are only taken while the crashed node's goroutines are parked outside the stores.
func CloneFS(src vfs.FS, root string) (vfs.FS, error) {
	dst := vfs.NewMem()
	var walk func(dir string) error
	walk = func(dir string) error {
		if err := dst.MkdirAll(dir, 0o755); err != nil {
			return err
		}
		names, err := src.List(dir)
		if err != nil {
			return err
		}
		for _, n := range names {
			p := src.PathJoin(dir, n)
			st, err := src.Stat(p)
			if err != nil {
				return err
			}
			if st.IsDir() {
				if err := walk(p); err != nil {
					return err
				}
				continue
			}
			if n == "LOCK" {
				continue
			}
			in, err := src.Open(p)
			if err != nil {
				return err
			}
			b, err := io.ReadAll(in)
			_ = in.Close()
			if err != nil {
				return err
			}
			out, err := dst.Create(p)
			if err != nil {
				return err
			}
			if _, err := out.Write(b); err != nil {
				return err
			}
			if err := out.Sync(); err != nil {
				return err
			}
			_ = out.Close()
		}
		return nil
	}
	if _, err := src.Stat(root); err != nil {
		return dst, nil //nolint:nilerr // nothing written yet
	}
	return dst, walk(root)
}

type SnowVM = snow.VM[*chain.ExecutionBlock, *chain.OutputBlock, *chain.OutputBlock]
type SBlock = snow.StatefulBlock[*chain.ExecutionBlock, *chain.OutputBlock, *chain.OutputBlock]

// Node is one process incarnation of a full hypersdk node (morpheusvm).
type Node struct {
	Name     string
	Dir      string
	Snow     *SnowVM
	VM       *vm.VM
	ToEngine chan common.Message
	// accepted-block notifications delivered to a subscriber of this incarnation (heights)
	mu       sync.Mutex
	Accepted []uint64
}

func baseDir() string {
	d := filepath.Join(os.Getenv("VERIF_ROOT"), ".work", "e3dirs", fmt.Sprintf("w%s", os.Getenv("VERIF_WORKER")))
	if os.Getenv("VERIF_ROOT") == "" {
		d = filepath.Join("/verif", ".work", "e3dirs", "w"+os.Getenv("VERIF_WORKER"))
	}
	return d
}

// GenesisFor builds morpheusvm genesis bytes.
func GenesisFor(rules *genesis.Rules, alloc []*genesis.CustomAllocation) ([]byte, error) {
	g := genesis.NewDefaultGenesis(alloc)
	g.Rules = rules
	return json.Marshal(g)
}

// NewNode starts a node incarnation on the file system registered for its directory.
func NewNode(ctx context.Context, t *testing.T, fsm *FSManager, name string, genesisBytes []byte, cfg map[string]any, sender common.AppSender) (*Node, error) {
	n := &Node{Name: name, Dir: filepath.Join(baseDir(), name), ToEngine: make(chan common.Message, 64)}
	if err := os.MkdirAll(n.Dir, 0o755); err != nil {
		return nil, err
	}
	if fsm.Get(n.Dir) == nil {
		fsm.Set(n.Dir, vfs.NewMem())
	}
	rec := vm.NewOption[struct{}]("verifrecorder", struct{}{}, func(_ api.VM, _ struct{}) (vm.Opt, error) {
		return vm.WithBlockSubscriptions(event.SubscriptionFuncFactory[*chain.ExecutedBlock]{
			NotifyF: func(_ context.Context, b *chain.ExecutedBlock) error {
				n.mu.Lock()
				n.Accepted = append(n.Accepted, b.Block.Hght)
				n.mu.Unlock()
				return nil
			},
		}), nil
	})
	v, err := mvm.New(vm.WithManual(), rec)
	if err != nil {
		return nil, err
	}
	n.VM = v
	n.Snow = snow.NewVM("v0.0.1", v)
	chainID := hashing.ComputeHash256Array(genesisBytes)
	snowCtx := snowtest.Context(TB(t), chainID)
	snowCtx.Log = logging.NoLog{}
	snowCtx.ChainDataDir = n.Dir
	snowCtx.NodeID = ids.BuildTestNodeID([]byte(name))
	cfgBytes, err := json.Marshal(cfg)
	if err != nil {
		return nil, err
	}
	if err := n.Snow.Initialize(ctx, snowCtx, nil, genesisBytes, nil, cfgBytes, n.ToEngine, nil, sender); err != nil {
		return n, err
	}
	return n, nil
}

func (n *Node) AcceptedHeights() []uint64 {
	n.mu.Lock()
	defer n.mu.Unlock()
	return append([]uint64{}, n.Accepted...)
}

// TransferTx builds a signed morpheusvm transfer.
func TransferTx(chainID ids.ID, from int, to int, value uint64, expiry int64, memo []byte) (*chain.Transaction, error) {
	sp := e2.Sponsors()
	act := &actions.Transfer{To: sp[to].Address(), Value: value, Memo: memo}
	td := chain.NewTxData(chain.Base{Timestamp: expiry, ChainID: chainID, MaxFee: ^uint64(0)}, []chain.Action{act})
	return td.Sign(sp[from])
}

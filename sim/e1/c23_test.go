package e1

import (
	"context"
	"fmt"
	"strings"
	"sync"
	"time"

	"github.com/ava-labs/avalanchego/ids"
	"github.com/ava-labs/avalanchego/trace"

	"github.com/ava-labs/hypersdk/codec"
	"github.com/ava-labs/hypersdk/internal/mempool"
	"github.com/ava-labs/hypersdk/verifsim/simk"
)

func init() {
	register(&simk.Prop{
		ID:    "C23",
		Level: "exploration",
		Rule: "seeded operation histories over a universe of <=8 items (3 sponsors, sizes 1/10/100, 4 expiry values) on the real mempool with item limit 1..6 and sponsor limit 1..limit: a builder task runs StartStreaming / PrepareStream / Stream / FinishStreaming (restoring a chosen subset, possibly leaving a prefetched batch unconsumed) or Top, while 0..2 client tasks Add / Remove / SetMinTimestamp / PopNext / PeekNext / Has / Len / Size concurrently; every completed operation is compared, in completion order, with a reference queue and the bound invariants; " +
			"non-trivial = a client operation completed while a stream was open, or a limit/stream rule rejected an add; distinct = distinct (history, schedule) hashes",
		Exec: c23,
		Real: []string{"internal/mempool Mempool", "internal/eheap", "internal/list", "internal/heap"},
		Stub: []string{"goroutine scheduling", "builder and clients (tasks issuing the mempool API calls)"},
		Assumptions: []string{
			"each mempool call is atomic at its lock acquisition (a yield point precedes every Lock/RLock)",
			"a new StartStreaming is only issued after the previous FinishStreaming returned (the builder's protocol)",
			"the order among items given back by one FinishStreaming/Top call is not part of the property: if the implementation hands them out in another order the check stops judging order for that run instead of reporting",
		},
	})
}

type c23Item struct {
	idx     int
	id      ids.ID
	sponsor codec.Address
	size    int
	expiry  int64
}

func (i *c23Item) GetID() ids.ID             { return i.id }
func (i *c23Item) GetExpiry() int64          { return i.expiry }
func (i *c23Item) GetSponsor() codec.Address { return i.sponsor }
func (i *c23Item) Size() int                 { return i.size }

type c23Model struct {
	queue        []int       // hand-out order
	grp          map[int]int // given-back group of an item (0 = ordinary arrival)
	nextGrp      int
	maxSize      int
	maxSponsor   int
	items        []*c23Item
	streaming    bool
	streamed     map[int]bool
	prefetch     []int // what the reference assumes a PrepareStream took
	prefetched   bool
	orderUnknown bool
}

func (m *c23Model) has(i int) bool {
	for _, x := range m.queue {
		if x == i {
			return true
		}
	}
	return false
}

func (m *c23Model) size() int {
	n := 0
	for _, x := range m.queue {
		n += m.items[x].size
	}
	return n
}

func (m *c23Model) owned(sp codec.Address) int {
	n := 0
	for _, x := range m.queue {
		if m.items[x].sponsor == sp {
			n++
		}
	}
	return n
}

func (m *c23Model) remove(i int) bool {
	for k, x := range m.queue {
		if x == i {
			m.queue = append(append([]int{}, m.queue[:k]...), m.queue[k+1:]...)
			return true
		}
	}
	return false
}

// add applies the admission rules; returns why an item was refused ("" = admitted).
func (m *c23Model) add(i int, front bool, grp int) string {
	if m.streaming && m.streamed[i] {
		return "streamed"
	}
	if m.has(i) {
		return "duplicate"
	}
	if m.owned(m.items[i].sponsor) >= m.maxSponsor {
		return "sponsor-limit"
	}
	if len(m.queue) >= m.maxSize {
		return "full"
	}
	if front {
		m.queue = append([]int{i}, m.queue...)
	} else {
		m.queue = append(m.queue, i)
	}
	m.grp[i] = grp
	return ""
}

// take validates the hand-out of item i. Returns "" if fine, "perm" if i is another member of the
// leading given-back group (order not constrained), otherwise a description of the mismatch.
func (m *c23Model) take(i int) string {
	if len(m.queue) == 0 {
		return "reference is empty"
	}
	head := m.queue[0]
	if head == i {
		m.queue = m.queue[1:]
		return ""
	}
	if g := m.grp[head]; g != 0 && m.grp[i] == g && m.has(i) {
		m.remove(i)
		return "perm"
	}
	if m.orderUnknown && m.has(i) && m.grp[i] == m.grp[head] && m.grp[i] != 0 {
		m.remove(i)
		return "perm"
	}
	return fmt.Sprintf("reference expects item %d next", head)
}

// c23Overlap: two consecutive builds whose streams meet. The block builder finishes a stream on a
// goroutine of its own (FinishStreaming runs after BuildBlock returned), so the next build's
// StartStreaming can overlap it. Whatever the interleaving, inside the second stream no item may be
// handed out twice and an item it handed out must not be re-addable until that stream finishes.
func c23Overlap(r *simk.Run) *simk.Violation {
	c := r.C
	s := r.NewSim()
	s.KeepLog = simk.WantLog()
	nItems := 3 + c.Intn(4)
	var sponsor codec.Address
	sponsor[0] = 9
	items := make([]*c23Item, nItems)
	for i := range items {
		items[i] = &c23Item{idx: i, id: ids.Empty.Prefix(uint64(i) + 300), sponsor: sponsor, size: 1, expiry: 10}
	}
	firstN := 1 + c.Intn(2)
	restoreFirst := c.Bool(0.5)
	secondSteps := 1 + c.Intn(3)
	readdAfter := c.Intn(secondSteps + 1)
	var viol *simk.Violation
	var mu sync.Mutex
	var hist []string
	note := func(f string, a ...any) {
		mu.Lock()
		hist = append(hist, fmt.Sprintf(f, a...))
		mu.Unlock()
	}
	finished := false
	s.Run(r.T, func() {
		ctx := context.Background()
		mp := mempool.New[*c23Item](trace.Noop, 64, 64)
		mp.Add(ctx, items)
		// build A
		mp.StartStreaming(ctx)
		a := mp.Stream(ctx, firstN)
		note("A:start,stream(%d)->%d items", firstN, len(a))
		var wg sync.WaitGroup
		wg.Add(2)
		s.Go("c23.finishA", 0, func() {
			defer wg.Done()
			var back []*c23Item
			if restoreFirst {
				back = a
			}
			mp.FinishStreaming(ctx, back)
			note("A:finish(restore=%v)", restoreFirst)
		})
		// build B, started without waiting for A's asynchronous finish
		s.Go("c23.buildB", 0, func() {
			defer wg.Done()
			mp.StartStreaming(ctx)
			note("B:start")
			handed := map[int]bool{}
			var order []int
			for st := 0; st < secondSteps; st++ {
				if st == readdAfter && len(order) > 0 {
					x := items[order[c.Intn(len(order))]]
					before := mp.Len(ctx)
					mp.Add(ctx, []*c23Item{x})
					note("B:client re-adds item %d during the stream", x.idx)
					if after := mp.Len(ctx); after != before {
						mu.Lock()
						if viol == nil {
							viol = &simk.Violation{Class: "C23/streamed-item-readded", Detail: fmt.Sprintf("item %d, handed out by the running stream, was accepted by Add during that stream (Len %d -> %d); history=%v", x.idx, before, after, hist)}
						}
						mu.Unlock()
						return
					}
				}
				for _, it := range mp.Stream(ctx, 1+c.Intn(2)) {
					if handed[it.idx] {
						mu.Lock()
						if viol == nil {
							viol = &simk.Violation{Class: "C23/handed-out-twice-in-one-stream", Detail: fmt.Sprintf("item %d was handed out twice within one stream; history=%v", it.idx, hist)}
						}
						mu.Unlock()
						return
					}
					handed[it.idx] = true
					order = append(order, it.idx)
				}
				note("B:stream -> %v", order)
			}
			mp.FinishStreaming(ctx, nil)
			note("B:finish")
		})
		wg.Wait()
		finished = true
	})
	r.Sample(map[string]any{"kind": "overlapping-builds", "history": hist})
	r.Fingerprint("overlap|%d|%v|%d|%d|%x", firstN, restoreFirst, secondSteps, readdAfter, s.TraceHash())
	r.Nontrivial()
	if v := s.Violation(); v != nil {
		return v
	}
	if viol != nil {
		return viol
	}
	if !finished && s.Hung && strings.Contains(s.HangInfo, "mempool.streamLock") && strings.Contains(s.HangInfo, "mempool.FinishStreaming") {
		// StartStreaming holds the mempool lock while it waits for the stream lock, FinishStreaming holds the
		// stream lock while it waits for the mempool lock: in this interleaving the two builds deadlock on the
		// unchanged tree. The listed property says nothing about termination of these calls, so this is an
		// observation (DESIGN.md §10.2), not a violation.
		s.Probe("observation_start_vs_finish_streaming_deadlock")
		return nil
	}
	if s.Hung && !s.StepLimit {
		return &simk.Violation{Class: "C23/hang", Detail: "overlapping builds never finished: " + s.HangInfo}
	}
	return nil
}

func c23(r *simk.Run) *simk.Violation {
	if r.C.Intn(10) == 0 {
		return c23Overlap(r)
	}
	c := r.C
	s := r.NewSim()
	s.KeepLog = simk.WantLog()
	nItems := 2 + c.Intn(7)
	maxSize := 1 + c.Intn(6)
	maxSponsor := 1 + c.Intn(maxSize)
	sponsors := make([]codec.Address, 3)
	for i := range sponsors {
		sponsors[i][0] = byte(i + 1)
		sponsors[i][5] = byte(i + 7)
	}
	items := make([]*c23Item, nItems)
	for i := range items {
		items[i] = &c23Item{idx: i, id: ids.Empty.Prefix(uint64(i) + 77), sponsor: sponsors[c.Intn(3)], size: []int{1, 10, 100}[c.Intn(3)], expiry: int64(1 + c.Intn(4))}
	}
	m := &c23Model{maxSize: maxSize, maxSponsor: maxSponsor, items: items, streamed: map[int]bool{}, grp: map[int]int{}}
	nClients := c.Intn(3)
	clientOps := 1 + c.Intn(8)
	builderRounds := 1 + c.Intn(3)

	var mu sync.Mutex
	var hist []string
	var viol, tentative *simk.Violation
	overlap, rejected := false, false
	fail := func(class, f string, a ...any) {
		v := &simk.Violation{Class: class, Detail: fmt.Sprintf(f, a...) + fmt.Sprintf("; limits(max=%d,sponsor=%d) history=%v", maxSize, maxSponsor, hist)}
		if m.prefetched {
			// the reference only assumes which items the unobserved prefetch took: confirm at Stream time
			if tentative == nil {
				tentative = v
			}
			return
		}
		if viol == nil {
			viol = v
		}
	}
	ctx := context.Background()
	pickItems := func(n int) ([]*c23Item, []int) {
		its := make([]*c23Item, n)
		idx := make([]int, n)
		for k := range its {
			idx[k] = c.Intn(nItems)
			its[k] = items[idx[k]]
		}
		return its, idx
	}
	modelAdd := func(idx []int, front bool) {
		g := 0
		if front {
			m.nextGrp++
			g = m.nextGrp
		}
		for _, i := range idx {
			if why := m.add(i, front, g); why == "sponsor-limit" || why == "full" || why == "streamed" {
				rejected = true
			}
		}
	}
	takeChecked := func(op string, i int) bool {
		switch res := m.take(i); res {
		case "":
			return true
		case "perm":
			m.orderUnknown = true
			return true
		default:
			fail("C23/handout-order", "%s handed out item %d but %s", op, i, res)
			return false
		}
	}

	s.Run(r.T, func() {
		mp := mempool.New[*c23Item](trace.Noop, maxSize, maxSponsor)
		var wg sync.WaitGroup
		clientOp := func(who string) {
			switch c.Weighted(6, 2, 2, 2, 1, 2, 1, 1) {
			case 0:
				its, idx := pickItems(1 + c.Intn(3))
				mp.Add(ctx, its)
				mu.Lock()
				hist = append(hist, fmt.Sprintf("%s:add%v", who, idx))
				modelAdd(idx, false)
				mu.Unlock()
			case 1:
				its, idx := pickItems(1 + c.Intn(2))
				mp.Remove(ctx, its)
				mu.Lock()
				hist = append(hist, fmt.Sprintf("%s:remove%v", who, idx))
				for _, i := range idx {
					m.remove(i)
				}
				mu.Unlock()
			case 2:
				t := int64(c.Intn(6))
				got := mp.SetMinTimestamp(ctx, t)
				mu.Lock()
				hist = append(hist, fmt.Sprintf("%s:setmin(%d)", who, t))
				want := map[int]bool{}
				for i := range items {
					if m.has(i) && items[i].expiry < t {
						want[i] = true
						m.remove(i)
					}
				}
				seen := map[int]bool{}
				for _, it := range got {
					if !want[it.idx] || seen[it.idx] {
						fail("C23/expiry-extra", "SetMinTimestamp(%d) removed item %d (expiry %d) which the reference does not expire (or removed it twice)", t, it.idx, it.expiry)
					}
					seen[it.idx] = true
				}
				if len(seen) != len(want) {
					fail("C23/expiry-missing", "SetMinTimestamp(%d) removed %d items, the reference expires %d", t, len(seen), len(want))
				}
				mu.Unlock()
			case 3:
				got, ok := mp.PopNext(ctx)
				mu.Lock()
				hist = append(hist, fmt.Sprintf("%s:pop", who))
				if ok != (len(m.queue) > 0) {
					fail("C23/pop-empty", "PopNext ok=%v but the reference holds %d items", ok, len(m.queue))
				} else if ok {
					takeChecked("PopNext", got.idx)
				}
				mu.Unlock()
			case 4:
				got, ok := mp.PeekNext(ctx)
				mu.Lock()
				hist = append(hist, fmt.Sprintf("%s:peek", who))
				if ok != (len(m.queue) > 0) {
					fail("C23/pop-empty", "PeekNext ok=%v but the reference holds %d items", ok, len(m.queue))
				} else if ok && got.idx != m.queue[0] && !(m.grp[got.idx] != 0 && m.grp[got.idx] == m.grp[m.queue[0]]) {
					fail("C23/handout-order", "PeekNext returned item %d but the reference expects item %d next", got.idx, m.queue[0])
				}
				mu.Unlock()
			case 5:
				i := c.Intn(nItems)
				got := mp.Has(ctx, items[i].id)
				mu.Lock()
				hist = append(hist, fmt.Sprintf("%s:has(%d)", who, i))
				if got != m.has(i) {
					fail("C23/membership", "Has(item %d) = %v, reference says %v", i, got, m.has(i))
				}
				mu.Unlock()
			case 6:
				got := mp.Len(ctx)
				mu.Lock()
				hist = append(hist, fmt.Sprintf("%s:len", who))
				if got > maxSize {
					fail("C23/over-limit", "Len() = %d exceeds the item limit %d", got, maxSize)
				} else if got != len(m.queue) {
					fail("C23/len", "Len() = %d, reference holds %d", got, len(m.queue))
				}
				mu.Unlock()
			case 7:
				got := mp.Size(ctx)
				mu.Lock()
				hist = append(hist, fmt.Sprintf("%s:size", who))
				if got != m.size() {
					fail("C23/size", "Size() = %d, sum of held item sizes in the reference is %d", got, m.size())
				}
				mu.Unlock()
			}
			mu.Lock()
			if m.streaming {
				overlap = true
			}
			mu.Unlock()
		}
		for cl := 0; cl < nClients; cl++ {
			cl := cl
			wg.Add(1)
			s.Go("client", uint64(cl), func() {
				defer wg.Done()
				for i := 0; i < clientOps && !s.Failed(); i++ {
					clientOp(fmt.Sprintf("c%d", cl))
				}
			})
		}
		wg.Add(1)
		s.Go("builder", 0, func() {
			defer wg.Done()
			its, idx := pickItems(1 + c.Intn(nItems))
			mp.Add(ctx, its)
			mu.Lock()
			hist = append(hist, fmt.Sprintf("b:add%v", idx))
			modelAdd(idx, false)
			mu.Unlock()
			for round := 0; round < builderRounds && !s.Failed(); round++ {
				if c.Intn(4) == 0 {
					var popped, restore []int
					stopAfter := c.Intn(4)
					_ = mp.Top(ctx, time.Hour, func(_ context.Context, it *c23Item) (bool, bool, error) {
						popped = append(popped, it.idx)
						rs := c.Bool(0.5)
						if rs {
							restore = append(restore, it.idx)
						}
						return len(popped) <= stopAfter, rs, nil
					})
					mu.Lock()
					hist = append(hist, fmt.Sprintf("b:top(popped%v,restore%v)", popped, restore))
					for _, i := range popped {
						if !takeChecked("Top", i) {
							break
						}
					}
					modelAdd(restore, true)
					mu.Unlock()
					continue
				}
				mp.StartStreaming(ctx)
				mu.Lock()
				hist = append(hist, "b:start")
				m.streaming = true
				m.streamed = map[int]bool{}
				mu.Unlock()
				var got []int
				steps := 1 + c.Intn(4)
				for st := 0; st < steps && !s.Failed(); st++ {
					n := 1 + c.Intn(3)
					if c.Bool(0.4) {
						mp.PrepareStream(ctx, n)
						mu.Lock()
						hist = append(hist, fmt.Sprintf("b:prepare(%d)", n))
						if m.prefetched {
							// a second prepare replaces the buffer in the implementation: the earlier
							// batch is lost from the pool but stays "streamed"; keep the reference in step
							m.prefetch = nil
						}
						k := n
						if k > len(m.queue) {
							k = len(m.queue)
						}
						m.prefetch = append([]int{}, m.queue[:k]...)
						m.queue = m.queue[k:]
						for _, i := range m.prefetch {
							m.streamed[i] = true
						}
						m.prefetched = true
						mu.Unlock()
						if c.Bool(0.3) {
							break // leave the prefetched batch unconsumed: FinishStreaming must give it back
						}
					}
					out := mp.Stream(ctx, n)
					mu.Lock()
					var oi []int
					for _, it := range out {
						oi = append(oi, it.idx)
					}
					hist = append(hist, fmt.Sprintf("b:stream(%d)=%v", n, oi))
					if m.prefetched {
						same := len(oi) == len(m.prefetch)
						for k := range oi {
							same = same && oi[k] == m.prefetch[k]
						}
						m.prefetched = false
						if same {
							if tentative != nil && viol == nil {
								viol = tentative
							}
						} else {
							// is it a permutation within one given-back group? then order is simply not ours to judge
							okPerm := len(oi) == len(m.prefetch)
							if okPerm {
								// put the assumed items back and take the actual ones from the leading group
								m.queue = append(append([]int{}, m.prefetch...), m.queue...)
								for _, i := range m.prefetch {
									delete(m.streamed, i)
								}
								for _, i := range oi {
									if res := m.take(i); res != "" && res != "perm" {
										okPerm = false
										break
									}
									m.streamed[i] = true
								}
							}
							if okPerm {
								m.orderUnknown = true
							} else {
								tentative = nil
								fail("C23/handout-order", "Stream returned prefetched items %v but the reference expected %v", oi, m.prefetch)
							}
						}
						tentative = nil
						m.prefetch = nil
					} else {
						for _, i := range oi {
							if m.streamed[i] {
								fail("C23/streamed-twice", "Stream handed out item %d twice within one stream", i)
							}
							if !takeChecked("Stream", i) {
								break
							}
							m.streamed[i] = true
						}
						if len(oi) < n && len(m.queue) != 0 {
							fail("C23/handout-short", "Stream(%d) returned %d items although the reference still holds %d", n, len(oi), len(m.queue))
						}
						if len(oi) > n {
							fail("C23/handout-long", "Stream(%d) returned %d items", n, len(oi))
						}
					}
					got = append(got, oi...)
					mu.Unlock()
				}
				// give back a chosen subset of what was streamed
				var restore []int
				var rits []*c23Item
				for _, i := range got {
					if c.Bool(0.4) {
						restore = append(restore, i)
						rits = append(rits, items[i])
					}
				}
				mp.FinishStreaming(ctx, rits)
				mu.Lock()
				hist = append(hist, fmt.Sprintf("b:finish(restore%v)", restore))
				m.streaming = false
				m.streamed = map[int]bool{}
				leftover := m.prefetch
				if m.prefetched {
					m.prefetched = false
					m.prefetch = nil
					if tentative != nil && viol == nil {
						// never confirmed by a Stream: drop (sound) — the unconsumed batch is validated below through later hand-outs
						tentative = nil
					}
				}
				m.nextGrp++
				g := m.nextGrp
				for _, i := range restore {
					if why := m.add(i, true, g); why == "sponsor-limit" || why == "full" {
						rejected = true
					}
				}
				for _, i := range leftover {
					if why := m.add(i, true, g); why == "sponsor-limit" || why == "full" {
						rejected = true
					}
				}
				mu.Unlock()
			}
		})
		wg.Wait()
		// final audit: drain the pool, everything must come out exactly once in reference order
		if !s.Failed() && viol == nil {
			n := mp.Len(ctx)
			sz := mp.Size(ctx)
			mu.Lock()
			hist = append(hist, "audit")
			if n != len(m.queue) || n > maxSize {
				fail("C23/len", "final Len() = %d, reference holds %d (limit %d)", n, len(m.queue), maxSize)
			}
			if sz != m.size() {
				fail("C23/size", "final Size() = %d, reference sum is %d", sz, m.size())
			}
			perSponsor := map[codec.Address]int{}
			mu.Unlock()
			seen := map[int]bool{}
			for {
				it, ok := mp.PopNext(ctx)
				if !ok {
					break
				}
				mu.Lock()
				if seen[it.idx] {
					fail("C23/duplicate-id", "item %d was held twice", it.idx)
				}
				seen[it.idx] = true
				perSponsor[it.sponsor]++
				if perSponsor[it.sponsor] > maxSponsor {
					fail("C23/over-sponsor-limit", "sponsor of item %d holds more than %d items", it.idx, maxSponsor)
				}
				takeChecked("final drain", it.idx)
				mu.Unlock()
			}
			mu.Lock()
			if len(m.queue) != 0 {
				fail("C23/item-lost", "after draining, the reference still holds items %v", m.queue)
			}
			mu.Unlock()
		}
	})
	r.Sample(map[string]any{"limit": maxSize, "sponsor_limit": maxSponsor, "items": nItems, "history": hist})
	r.Fingerprint("%d|%d|%v", maxSize, maxSponsor, hist)
	if overlap || rejected {
		r.Nontrivial()
	}
	if v := s.Violation(); v != nil {
		return v
	}
	if viol != nil {
		return viol
	}
	if s.StepLimit {
		return nil
	}
	if s.Hung {
		return &simk.Violation{Class: "C23/hang", Detail: fmt.Sprintf("mempool scenario never finished: parked=[%s] history=%v", s.HangInfo, hist)}
	}
	return nil
}

package e1

import (
	"context"
	"errors"
	"fmt"
	"sort"
	"sync"

	"github.com/ava-labs/avalanchego/database"

	"github.com/ava-labs/hypersdk/keys"
	"github.com/ava-labs/hypersdk/state"
	"github.com/ava-labs/hypersdk/state/tstate"
	"github.com/ava-labs/hypersdk/verifsim/simk"
)

func init() {
	register(&simk.Prop{
		ID:    "C04",
		Level: "exploration",
		Rule: "seeded histories of get/insert/remove/checkpoint/rollback/commit (<=28 ops per view) over <=4 keys with random base values, block-level pending changes made by earlier committed views, 1..3 successive views and up to 3 concurrent views (disjoint keys, as the executor guarantees) on one TState, base read errors injected at a chosen key; every result is compared with a stack-of-maps reference; " +
			"non-trivial = the history contains a rollback or a remove/insert of the same key, or >=2 concurrent views; distinct = distinct (history, base, schedule) hashes",
		Exec:        c04,
		Real:        []string{"state/tstate TState and TStateView (GetValue, Insert, Remove, Rollback, OpIndex, Commit, ChangedKeys)", "keys.VerifyValue / NumChunks"},
		Stub:        []string{"base state.Immutable (map with injected read errors)", "goroutine scheduling for the concurrent views"},
		Assumptions: []string{"concurrent views touch disjoint keys (the executor's guarantee, checked separately as C08)"},
	})
}

type c04Base struct {
	mu      sync.Mutex
	vals    map[string][]byte
	failKey string
	fired   *int
}

var errC04Injected = errors.New("injected base read error")

func (b *c04Base) GetValue(_ context.Context, key []byte) ([]byte, error) {
	b.mu.Lock()
	defer b.mu.Unlock()
	if b.failKey != "" && string(key) == b.failKey {
		*b.fired++
		return nil, errC04Injected
	}
	v, ok := b.vals[string(key)]
	if !ok {
		return nil, database.ErrNotFound
	}
	return v, nil
}

type mval struct {
	v      string
	exists bool
}

type c04Model struct {
	base    map[string]string
	block   map[string]mval // published block-level changes
	pending map[string]mval
}

func (m *c04Model) underlying(k string) mval {
	if v, ok := m.block[k]; ok {
		return v
	}
	if v, ok := m.base[k]; ok {
		return mval{v, true}
	}
	return mval{}
}

func (m *c04Model) visible(k string) mval {
	if v, ok := m.pending[k]; ok {
		return v
	}
	return m.underlying(k)
}

func copyM(m map[string]mval) map[string]mval {
	c := make(map[string]mval, len(m))
	for k, v := range m {
		c[k] = v
	}
	return c
}

type c04Op struct {
	Kind string `json:"op"`
	Key  int    `json:"key,omitempty"`
	Val  string `json:"val,omitempty"`
	CP   int    `json:"cp,omitempty"`
}

// runs one view's history against the real view and the model; returns a violation or nil.
func c04RunView(r *simk.Run, s *simk.Sim, viewID int, ts *tstate.TState, base *c04Base, m *c04Model, allKeys []string, myKeys []int, nOps int, hist *[]c04Op, flags *c04Flags) *simk.Violation {
	c := r.C
	ctx := context.Background()
	view := ts.NewView(state.CompletePermissions, base, len(allKeys))
	m.pending = map[string]mval{}
	type cp struct {
		op   int
		snap map[string]mval
	}
	var cps []cp
	lastOp := map[int]string{}
	vv := func(v mval) string {
		if !v.exists {
			return "<absent>"
		}
		return fmt.Sprintf("%q", v.v)
	}
	for i := 0; i < nOps; i++ {
		ki := myKeys[c.Intn(len(myKeys))]
		k := allKeys[ki]
		failing := base.failKey == k
		switch c.Weighted(4, 5, 4, 2, 2) {
		case 0: // get
			*hist = append(*hist, c04Op{Kind: "get", Key: ki})
			got, err := view.GetValue(ctx, []byte(k))
			want := m.visible(k)
			_, inPending := m.pending[k]
			_, inBlock := m.block[k]
			if failing && !inPending && !inBlock {
				// the visible value can only come from the base, whose read fails
				if !errors.Is(err, errC04Injected) {
					return &simk.Violation{Class: "C04/base-error-not-propagated", Detail: fmt.Sprintf("view %d op %d get(k%d): base read failed but GetValue returned (%q, %v)", viewID, i, ki, got, err)}
				}
				continue
			}
			if want.exists {
				if err != nil || string(got) != want.v {
					return &simk.Violation{Class: c04ReadClass(*hist, ki), Detail: fmt.Sprintf("view %d op %d get(k%d) = (%q, %v), reference says %s; history=%v", viewID, i, ki, got, err, vv(want), *hist)}
				}
			} else if !errors.Is(err, database.ErrNotFound) {
				return &simk.Violation{Class: c04ReadClass(*hist, ki), Detail: fmt.Sprintf("view %d op %d get(k%d) = (%q, %v), reference says absent; history=%v", viewID, i, ki, got, err, *hist)}
			}
		case 1: // insert
			val := fmt.Sprintf("v%d", c.Intn(4))
			if c.Intn(8) == 0 {
				val = ""
			}
			if c.Intn(6) == 0 { // re-insert the base or block value: exercises the "unchanged" paths
				if u := m.underlying(k); u.exists {
					val = u.v
				} else if bv, ok := m.base[k]; ok {
					val = bv
				}
			}
			*hist = append(*hist, c04Op{Kind: "insert", Key: ki, Val: val})
			if lastOp[ki] == "remove" {
				flags.reinsert = true
			}
			lastOp[ki] = "insert"
			err := view.Insert(ctx, []byte(k), []byte(val))
			if failing {
				// an insert may or may not need the base; if it reports an error it must be
				// the injected one and nothing may change
				if err != nil {
					if !errors.Is(err, errC04Injected) {
						return &simk.Violation{Class: "C04/base-error-not-propagated", Detail: fmt.Sprintf("view %d op %d insert(k%d): base read failed but Insert returned %v", viewID, i, ki, err)}
					}
					continue
				}
			}
			if err != nil {
				return &simk.Violation{Class: "C04/insert-error", Detail: fmt.Sprintf("view %d op %d insert(k%d,%q) failed: %v", viewID, i, ki, val, err)}
			}
			m.pending[k] = mval{val, true}
		case 2: // remove
			*hist = append(*hist, c04Op{Kind: "remove", Key: ki})
			if lastOp[ki] == "insert" {
				flags.redelete = true
			}
			lastOp[ki] = "remove"
			err := view.Remove(ctx, []byte(k))
			_, inPending := m.pending[k]
			_, inBlock := m.block[k]
			if failing {
				if err != nil {
					if !errors.Is(err, errC04Injected) {
						return &simk.Violation{Class: "C04/base-error-not-propagated", Detail: fmt.Sprintf("view %d op %d remove(k%d): base read failed but Remove returned %v", viewID, i, ki, err)}
					}
					continue
				}
				if !inPending && !inBlock {
					// whether the key exists is only known to the base: success means the failed read was taken for a value or for absence
					return &simk.Violation{Class: "C04/base-error-not-propagated", Detail: fmt.Sprintf("view %d op %d remove(k%d): existence depends on the failing base read but Remove succeeded", viewID, i, ki)}
				}
			}
			if err != nil {
				return &simk.Violation{Class: "C04/remove-error", Detail: fmt.Sprintf("view %d op %d remove(k%d) failed: %v", viewID, i, ki, err)}
			}
			if m.visible(k).exists {
				m.pending[k] = mval{}
			}
		case 3: // checkpoint
			*hist = append(*hist, c04Op{Kind: "checkpoint", CP: len(cps)})
			cps = append(cps, cp{view.OpIndex(), copyM(m.pending)})
		case 4: // rollback
			if len(cps) == 0 {
				continue
			}
			ci := c.Intn(len(cps))
			*hist = append(*hist, c04Op{Kind: "rollback", CP: ci})
			flags.rollback = true
			view.Rollback(ctx, cps[ci].op)
			m.pending = copyM(cps[ci].snap)
			cps = cps[:ci+1]
			lastOp = map[int]string{}
			// everything visible must equal the checkpoint's view
			for _, kj := range myKeys {
				kk := allKeys[kj]
				if base.failKey == kk {
					continue
				}
				got, err := view.GetValue(ctx, []byte(kk))
				want := m.visible(kk)
				if want.exists && (err != nil || string(got) != want.v) || !want.exists && !errors.Is(err, database.ErrNotFound) {
					return &simk.Violation{Class: "C04/rollback-wrong-value", Detail: fmt.Sprintf("view %d after rollback to checkpoint %d: k%d reads (%q,%v), checkpoint value %s; history=%v", viewID, ci, kj, got, err, vv(want), *hist)}
				}
			}
		}
		if s != nil && c.Intn(4) == 0 {
			s.Yield("view.op", uint64(viewID))
		}
	}
	// commit: publishes exactly the keys whose visible value differs from the underlying state
	*hist = append(*hist, c04Op{Kind: "commit"})
	before := map[string]mval{}
	for k, v := range ts.ChangedKeys() {
		if v.IsNothing() {
			before[k] = mval{}
		} else {
			before[k] = mval{string(v.Value()), true}
		}
	}
	view.Commit()
	after := ts.ChangedKeys()
	for _, kj := range myKeys {
		k := allKeys[kj]
		if base.failKey == k {
			// the underlying value is unknowable; keep the reference in step with the implementation
			if v, ok := after[k]; ok {
				if v.IsNothing() {
					m.block[k] = mval{}
				} else {
					m.block[k] = mval{string(v.Value()), true}
				}
			}
			continue
		}
		vis := m.visible(k)
		und := m.underlying(k)
		var got *mval
		if v, ok := after[k]; ok {
			if v.IsNothing() {
				got = &mval{}
			} else {
				got = &mval{string(v.Value()), true}
			}
		}
		prev, hadPrev := before[k]
		if vis != und {
			if got == nil || *got != vis {
				g := "<no entry>"
				if got != nil {
					g = vv(*got)
				}
				return &simk.Violation{Class: c04CommitClass(*hist, kj), Detail: fmt.Sprintf("view %d commit: k%d visible %s differs from underlying %s but block-level entry after commit is %s; history=%v", viewID, kj, vv(vis), vv(und), g, *hist)}
			}
			m.block[k] = vis
		} else {
			// must not publish: entry unchanged by the commit
			if (got != nil) != hadPrev || (got != nil && *got != prev) {
				g := "<no entry>"
				if got != nil {
					g = vv(*got)
				}
				return &simk.Violation{Class: "C04/commit-publishes-unchanged", Detail: fmt.Sprintf("view %d commit: k%d visible value %s equals underlying but commit changed the block-level entry to %s; history=%v", viewID, kj, vv(vis), g, *hist)}
			}
		}
	}
	m.pending = nil
	return nil
}

type c04Flags struct{ rollback, reinsert, redelete bool }

// c04ReadClass names the violated clause structurally: a wrong read after remove->insert->remove
// of one key is a different class from any other wrong read.
func c04ReadClass(hist []c04Op, key int) string {
	if c04HasRIR(hist, key) {
		return "C04/wrong-read-after-remove-insert-remove"
	}
	return "C04/wrong-read"
}

func c04CommitClass(hist []c04Op, key int) string {
	if c04HasRIR(hist, key) {
		return "C04/wrong-commit-after-remove-insert-remove"
	}
	return "C04/wrong-commit"
}

// c04HasRIR reports whether the ops on key since the view began contain remove, insert, remove in that order.
func c04HasRIR(hist []c04Op, key int) bool {
	st := 0
	for i := len(hist) - 1; i >= 0; i-- { // only the current view: stop at the previous commit
		if hist[i].Kind == "commit" && i != len(hist)-1 {
			hist = hist[i+1:]
			break
		}
	}
	for _, o := range hist {
		if o.Key != key {
			continue
		}
		switch {
		case st == 0 && o.Kind == "remove":
			st = 1
		case st == 1 && o.Kind == "insert":
			st = 2
		case st == 2 && o.Kind == "remove":
			return true
		}
	}
	return false
}

func c04(r *simk.Run) *simk.Violation {
	c := r.C
	nKeys := 1 + c.Intn(4)
	allKeys := make([]string, nKeys)
	for i := range allKeys {
		allKeys[i] = string(keys.EncodeChunks([]byte(fmt.Sprintf("k%d", i)), uint16(1+c.Intn(2))))
	}
	fired := 0
	base := &c04Base{vals: map[string][]byte{}, fired: &fired}
	model := &c04Model{base: map[string]string{}, block: map[string]mval{}}
	for _, k := range allKeys {
		if c.Bool(0.6) {
			v := fmt.Sprintf("b%d", c.Intn(3))
			base.vals[k] = []byte(v)
			model.base[k] = v
		}
	}
	if c.Intn(6) == 0 {
		base.failKey = allKeys[c.Intn(nKeys)]
	}
	maxOps := 16
	if r.Tier == "thorough" {
		maxOps = 28
	}
	concurrent := nKeys >= 2 && c.Intn(3) == 0
	nViews := 1 + c.Intn(3)
	var hists [][]c04Op
	flags := &c04Flags{}
	var viol *simk.Violation
	ts := tstate.New(8)
	s := r.NewSim()
	s.KeepLog = simk.WantLog()

	all := make([]int, nKeys)
	for i := range all {
		all[i] = i
	}
	if !concurrent {
		for v := 0; v < nViews && viol == nil; v++ {
			var h []c04Op
			viol = c04RunView(r, nil, v, ts, base, model, allKeys, all, 1+c.Intn(maxOps), &h, flags)
			hists = append(hists, h)
		}
	} else {
		// an earlier committed view creates block-level pending changes, then concurrent views on disjoint keys
		var h0 []c04Op
		viol = c04RunView(r, nil, 0, ts, base, model, allKeys, all, 1+c.Intn(maxOps), &h0, flags)
		hists = append(hists, h0)
		if viol == nil {
			nConc := 2
			if nKeys >= 3 && c.Bool(0.5) {
				nConc = 3
			}
			parts := make([][]int, nConc)
			for i, ki := range c.Perm(nKeys) {
				parts[i%nConc] = append(parts[i%nConc], ki)
			}
			nOps := make([]int, nConc)
			for i := range nOps {
				nOps[i] = 1 + c.Intn(maxOps/2)
			}
			hs := make([][]c04Op, nConc)
			viols := make([]*simk.Violation, nConc)
			// each concurrent view needs its own model pending map but they share base/block
			var mmu sync.Mutex
			_ = mmu
			s.Run(r.T, func() {
				var wg sync.WaitGroup
				for i := 0; i < nConc; i++ {
					i := i
					wg.Add(1)
					s.Go("view", uint64(i), func() {
						defer wg.Done()
						vm := &c04Model{base: model.base, block: model.block}
						viols[i] = c04RunView(r, s, 10+i, ts, base, vm, allKeys, parts[i], nOps[i], &hs[i], flags)
					})
				}
				wg.Wait()
			})
			for i := range viols {
				hists = append(hists, hs[i])
				if viols[i] != nil && viol == nil {
					viol = viols[i]
				}
			}
			if viol == nil {
				if v := s.Violation(); v != nil {
					viol = v
				} else if s.Hung {
					viol = &simk.Violation{Class: "C04/hang", Detail: "concurrent views never finished: " + s.HangInfo}
				}
			}
		}
	}
	var bk []string
	for k, v := range model.base {
		bk = append(bk, fmt.Sprintf("%q=%q", k, v))
	}
	sort.Strings(bk)
	r.Sample(map[string]any{"base": bk, "fail_key": base.failKey, "views": hists, "concurrent": concurrent})
	r.Fingerprint("%v|%s|%v|%v", bk, base.failKey, hists, concurrent)
	if flags.rollback || flags.reinsert || flags.redelete || concurrent {
		r.Nontrivial()
	}
	for i := 0; i < fired; i++ {
		s.FaultFired("base-read-error")
	}
	return viol
}

package e1

import (
	"errors"
	"fmt"
	"sync"
	"time"

	"github.com/ava-labs/avalanchego/utils/logging"

	"github.com/ava-labs/hypersdk/pubsub"
	"github.com/ava-labs/hypersdk/verifsim/simk"
)

func init() {
	register(&simk.Prop{
		ID:    "C32",
		Level: "exploration",
		Rule: "seeded message-size sequences (sizes 0, 1, around max/2, max-overhead.., max, max+1) sent by 1..2 sender tasks into a real MessageBuffer (max batch size 8..96 bytes, flush timeout 10ms..1s on the simulated clock, queue capacity 1..3 or ample), a consumer task draining the queue at the scheduler's pace, Close from its own task at a scheduler-chosen moment, the clock advanced as a schedulable action so the flush timer can fire between any two steps; " +
			"non-trivial = >=2 runnable tasks at some step and (a timer flush or a size-triggered flush happened); distinct = distinct (schedule, size sequence) hashes",
		Exec:        c32,
		Real:        []string{"pubsub.MessageBuffer (Send, Close, timer callback, clearPending)", "pubsub.CreateBatchMessage / ParseBatchMessage (canoto)", "avalanchego utils/timer.Timer on the bubble's fake clock"},
		Stub:        []string{"goroutine scheduling", "clock (synctest fake clock; advance is a scheduler choice)", "websocket connection (a consumer task reading MessageBuffer.Queue)"},
		Assumptions: []string{"a batch may be dropped only when the outgoing queue is full; runs with an ample queue therefore require exact delivery"},
	})
}

func c32(r *simk.Run) *simk.Violation {
	c := r.C
	s := r.NewSim()
	s.KeepLog = simk.WantLog()
	s.ClockTask = true
	s.ClockSteps = []time.Duration{time.Millisecond, 5 * time.Millisecond, 20 * time.Millisecond, 200 * time.Millisecond}
	maxSize := 8 + c.Intn(89)
	timeout := []time.Duration{10 * time.Millisecond, 50 * time.Millisecond, time.Second}[c.Intn(3)]
	nSenders := 1 + c.Intn(2)
	nMsgs := 1 + c.Intn(10)
	ample := c.Bool(0.7)
	queueCap := 1 + c.Intn(3)
	if ample {
		queueCap = 2*nMsgs*nSenders + 4
	}
	closeMode := c.Intn(3) // 0: close after everything was flushed by the timer; 1: close right after the last send; 2: close concurrently
	sizes := make([][]int, nSenders)
	for i := range sizes {
		sizes[i] = make([]int, nMsgs)
		for k := range sizes[i] {
			switch c.Intn(8) {
			case 0:
				sizes[i][k] = 0
			case 1:
				sizes[i][k] = 1
			case 2:
				sizes[i][k] = maxSize
			case 3:
				sizes[i][k] = maxSize + 1
			case 4:
				sizes[i][k] = maxSize - 1 - c.Intn(4)
			case 5:
				sizes[i][k] = maxSize/2 + c.Intn(3) - 1
			default:
				sizes[i][k] = c.Intn(maxSize + 1)
			}
			if sizes[i][k] < 0 {
				sizes[i][k] = 0
			}
		}
	}
	var mu sync.Mutex
	var accepted []string // in acceptance order (Send returned nil)
	var emitted [][]byte  // raw batches received by the consumer
	var viol *simk.Violation
	fail := func(class, f string, a ...any) {
		mu.Lock()
		if viol == nil {
			viol = &simk.Violation{Class: class, Detail: fmt.Sprintf(f, a...)}
		}
		mu.Unlock()
	}
	closedOK := false
	queueClosed := false
	sawFull := false

	s.Run(r.T, func() {
		mb := pubsub.NewMessageBuffer(logging.NoLog{}, queueCap, maxSize, timeout)
		var wg, cw sync.WaitGroup
		stopConsumer := make(chan struct{})
		cw.Add(1)
		s.Go("consumer", 0, func() {
			defer cw.Done()
			for {
				s.Yield("consumer.next", 0)
				select {
				case b, ok := <-mb.Queue:
					if !ok {
						mu.Lock()
						queueClosed = true
						mu.Unlock()
						return
					}
					mu.Lock()
					emitted = append(emitted, b)
					mu.Unlock()
				case <-stopConsumer:
					return
				}
			}
		})
		closed := false
		for i := 0; i < nSenders; i++ {
			i := i
			wg.Add(1)
			s.Go("sender", uint64(i), func() {
				defer wg.Done()
				for k, sz := range sizes[i] {
					msg := make([]byte, sz)
					tag := fmt.Sprintf("%d.%d;", i, k)
					copy(msg, tag)
					for j := len(tag); j < sz; j++ {
						msg[j] = byte('a' + (i+k+j)%26)
					}
					if len(mb.Queue) == cap(mb.Queue) {
						mu.Lock()
						sawFull = true
						mu.Unlock()
					}
					err := mb.Send(msg)
					mu.Lock()
					wasClosed := closed
					mu.Unlock()
					switch {
					case err == nil:
						if sz > maxSize {
							fail("C32/oversize-accepted", "Send accepted a %d-byte message with max size %d", sz, maxSize)
						}
						mu.Lock()
						accepted = append(accepted, string(msg))
						mu.Unlock()
					case errors.Is(err, pubsub.ErrMessageTooLarge):
						if sz <= maxSize-8 { // a message that certainly fits once encoded must not be refused
							fail("C32/fitting-message-refused", "Send refused a %d-byte message with max size %d", sz, maxSize)
						}
					case errors.Is(err, pubsub.ErrClosed):
						if !wasClosed && closeMode != 2 {
							fail("C32/spurious-closed", "Send returned ErrClosed before Close was called")
						}
					default:
						fail("C32/send-error", "Send returned unexpected error %v", err)
					}
					s.Yield("sender.next", uint64(i))
				}
			})
		}
		doClose := func() {
			mu.Lock()
			closed = true
			mu.Unlock()
			if err := mb.Close(); err == nil {
				mu.Lock()
				closedOK = true
				mu.Unlock()
			}
		}
		if closeMode == 2 {
			wg.Add(1)
			s.Go("closer", 0, func() {
				defer wg.Done()
				doClose()
			})
		}
		wg.Wait()
		if closeMode == 0 {
			// no more sends: the flush timer must emit whatever is pending within the timeout
			// (clock advance stops being a scheduler choice: time now only moves when no task
			// is runnable, so the timer callback and the consumer run before this sleep ends)
			s.ClockTask = false
			time.Sleep(2*timeout + time.Millisecond)
			if ample {
				mu.Lock()
				n := 0
				for _, b := range emitted {
					msgs, _ := pubsub.ParseBatchMessage(b)
					n += len(msgs)
				}
				n += 0
				na := len(accepted)
				mu.Unlock()
				// batches flushed but not yet taken by the consumer still sit in the queue
				inQueue := len(mb.Queue)
				if n != na && inQueue == 0 {
					fail("C32/timer-flush-missing", "%d messages accepted, no send for 2x the flush timeout (%v), but only %d were emitted", na, timeout, n)
				}
			}
		}
		if closeMode != 2 {
			doClose()
		}
		// stop the consumer, then drain what is left in the queue ourselves (no fairness assumed)
		close(stopConsumer)
		cw.Wait()
		mu.Lock()
		ok := closedOK
		mu.Unlock()
		if ok {
			for b := range mb.Queue {
				emitted = append(emitted, b)
			}
			queueClosed = true
		} else {
			for {
				select {
				case b, more := <-mb.Queue:
					if !more {
						queueClosed = true
						return
					}
					emitted = append(emitted, b)
					continue
				default:
				}
				break
			}
		}
	})

	r.Sample(map[string]any{"max_size": maxSize, "timeout": timeout.String(), "queue_cap": queueCap, "sizes": sizes, "close_mode": closeMode})
	r.Fingerprint("%d|%v|%d|%v|%d", maxSize, timeout, queueCap, sizes, closeMode)
	if v := s.Violation(); v != nil {
		return v
	}
	if viol != nil {
		return viol
	}
	if s.StepLimit {
		return nil
	}
	if s.Hung {
		return &simk.Violation{Class: "C32/hang", Detail: fmt.Sprintf("message buffer scenario never finished (close_mode=%d): parked=[%s]", closeMode, s.HangInfo)}
	}
	// decode what was emitted
	var out []string
	flushes := 0
	for bi, b := range emitted {
		if len(b) > maxSize {
			msgs, _ := pubsub.ParseBatchMessage(b)
			lens := make([]int, len(msgs))
			for i := range msgs {
				lens[i] = len(msgs[i])
			}
			return &simk.Violation{Class: "C32/batch-exceeds-max-size", Detail: fmt.Sprintf("emitted batch %d encodes to %d bytes > max size %d (payload sizes %v)", bi, len(b), maxSize, lens)}
		}
		msgs, err := pubsub.ParseBatchMessage(b)
		if err != nil {
			return &simk.Violation{Class: "C32/undecodable-batch", Detail: fmt.Sprintf("emitted batch %d does not decode: %v", bi, err)}
		}
		if len(msgs) > 0 {
			flushes++
		}
		for _, m := range msgs {
			out = append(out, string(m))
		}
	}
	if s.MultiPicks > 0 && flushes > 0 {
		r.Nontrivial()
	}
	// emitted must be an in-order subsequence of accepted, without duplicates
	ai := 0
	for oi, m := range out {
		found := false
		for ai < len(accepted) {
			if accepted[ai] == m {
				found = true
				ai++
				break
			}
			ai++
		}
		if !found {
			return &simk.Violation{Class: "C32/order-or-duplicate", Detail: fmt.Sprintf("emitted message #%d %q is out of order, duplicated or was never accepted (accepted=%d emitted=%d)", oi, trunc(m), len(accepted), len(out))}
		}
	}
	if closedOK && !sawFull && ample && len(out) != len(accepted) {
		return &simk.Violation{Class: "C32/message-lost", Detail: fmt.Sprintf("%d messages were accepted and the buffer was closed cleanly with a never-full queue, but %d were emitted", len(accepted), len(out))}
	}
	if closedOK && !queueClosed {
		return &simk.Violation{Class: "C32/queue-not-closed", Detail: "Close returned nil but the outgoing queue was not closed"}
	}
	return nil
}

func trunc(s string) string {
	if len(s) > 24 {
		return s[:24] + "..."
	}
	return s
}

package e1

import (
	"errors"
	"fmt"
	"sync"

	"github.com/ava-labs/hypersdk/internal/workers"
	"github.com/ava-labs/hypersdk/verifsim/simk"
)

func init() {
	register(&simk.Prop{
		ID:    "C26",
		Level: "exploration",
		Rule: "seeded job lists (1..4 jobs of 0..7 tasks, failing tasks at any positions, 1..6 workers, optional Stop at a scheduler-chosen moment, submit-after-stop) on the real ParallelWorkers pool; every channel receive, lock acquisition and wait in the pool is a scheduling point decided by the seeded scheduler; " +
			"non-trivial = the scheduler had >=2 runnable tasks at some step and the run has >=2 pool tasks; distinct = distinct (pick sequence, job list) hashes",
		Exec: c26,
		Real: []string{"internal/workers ParallelWorkers (queue goroutine, workers, jobs, Stop)"},
		Stub: []string{"goroutine scheduling (seeded scheduler)", "task bodies (recording closures)", "clients (one task per job)"},
		Assumptions: []string{
			"NewJob is never issued concurrently with Stop (only strictly before Stop is invoked or after it returned); the pool has a send-on-closed-channel window there that is outside the property's statement (DESIGN.md observations)",
			"task backlog >= number of tasks of the job, as the API documentation requires for non-blocking use",
		},
	})
}

type c26Job struct {
	Tasks []bool `json:"tasks_fail"` // one entry per task: true = fails
	CB    bool   `json:"done_callback"`
}

func c26(r *simk.Run) *simk.Violation {
	c := r.C
	s := r.NewSim()
	s.KeepLog = simk.WantLog()
	nWorkers := 1 + c.Intn(6)
	nJobs := 1 + c.Intn(4)
	jobs := make([]c26Job, nJobs)
	total := 0
	for i := range jobs {
		n := c.Intn(8)
		jobs[i].Tasks = make([]bool, n)
		failP := []float64{0, 0.15, 0.5}[c.Intn(3)]
		for k := range jobs[i].Tasks {
			jobs[i].Tasks[k] = c.Bool(failP)
		}
		jobs[i].CB = c.Bool(0.5)
		total += n
	}
	queueCap := 1 + c.Intn(nJobs+1)
	stopMode := c.Intn(4) // 0,2: Stop after every job finished; 1,3: Stop from a concurrent task at a scheduler-chosen moment
	bodyYields := c.Intn(2)

	var mu sync.Mutex
	type rec struct{ enter, exit []uint64 }
	recs := make([][]rec, nJobs)
	for i := range recs {
		recs[i] = make([]rec, len(jobs[i].Tasks))
	}
	waitErr := make([]error, nJobs)
	waitSeq := make([]uint64, nJobs)
	cbSeq := make([][]uint64, nJobs)
	var stopCallSeq, stopRetSeq uint64
	var lateErr error
	lateDone := false
	taskErr := func(j, k int) error { return fmt.Errorf("job %d task %d failed", j, k) }
	errsOf := make([][]error, nJobs)
	for j := range errsOf {
		errsOf[j] = make([]error, len(jobs[j].Tasks))
		for k := range errsOf[j] {
			errsOf[j][k] = taskErr(j, k)
		}
	}
	finishedClients := 0

	s.Run(r.T, func() {
		w := workers.NewParallel(nWorkers, queueCap)
		jhs := make([]workers.Job, nJobs)
		ready := make([]chan struct{}, nJobs)
		for j := range ready {
			ready[j] = make(chan struct{})
		}
		var wg sync.WaitGroup
		for j := range jobs {
			j := j
			wg.Add(1)
			s.Go("client", uint64(j), func() {
				defer wg.Done()
				<-ready[j]
				s.Yield("client.ready", uint64(j))
				if jhs[j] == nil {
					return
				}
				for k := range jobs[j].Tasks {
					k := k
					jhs[j].Go(func() error {
						mu.Lock()
						recs[j][k].enter = append(recs[j][k].enter, s.Seq())
						mu.Unlock()
						for y := 0; y < bodyYields; y++ {
							s.Yield("pooltask.body", uint64(j)<<16|uint64(k))
						}
						mu.Lock()
						recs[j][k].exit = append(recs[j][k].exit, s.Seq())
						mu.Unlock()
						if jobs[j].Tasks[k] {
							return errsOf[j][k]
						}
						return nil
					})
					s.Yield("client.go", uint64(j))
				}
				var cb func()
				if jobs[j].CB {
					cb = func() {
						mu.Lock()
						cbSeq[j] = append(cbSeq[j], s.Seq())
						mu.Unlock()
					}
				}
				jhs[j].Done(cb)
				s.Yield("client.wait", uint64(j))
				err := jhs[j].Wait()
				mu.Lock()
				waitErr[j] = err
				waitSeq[j] = s.Seq()
				finishedClients++
				mu.Unlock()
			})
		}
		stop := func() {
			mu.Lock()
			stopCallSeq = s.Seq()
			mu.Unlock()
			w.Stop()
			mu.Lock()
			stopRetSeq = s.Seq()
			mu.Unlock()
		}
		// jobs are queued in index order by this (single) submitter; with a small
		// queue capacity NewJob blocks until earlier jobs have been taken off the queue
		for j := range jobs {
			jh, err := w.NewJob(len(jobs[j].Tasks) + 1)
			if err != nil {
				s.Violate("C26/newjob-error", "NewJob before Stop returned %v", err)
				close(ready[j])
				continue
			}
			jhs[j] = jh
			close(ready[j])
		}
		switch stopMode {
		case 1, 3:
			wg.Add(1)
			s.Go("stopper", 0, func() {
				defer wg.Done()
				stop()
			})
		}
		wg.Wait()
		if stopMode == 0 || stopMode == 2 {
			stop()
		}
		_, lateErr = w.NewJob(1)
		lateDone = true
	})

	r.Sample(map[string]any{"workers": nWorkers, "jobs": jobs, "queue_cap": queueCap, "stop_mode": stopMode, "body_yields": bodyYields})
	r.Fingerprint("%v|%d|%d|%d", jobs, nWorkers, stopMode, queueCap)
	if s.MultiPicks > 0 && total >= 2 {
		r.Nontrivial()
	}
	if v := s.Violation(); v != nil {
		return v
	}
	if s.StepLimit {
		return nil
	}
	if s.Hung {
		if finishedClients < nJobs {
			return &simk.Violation{Class: "C26/job-hang", Detail: fmt.Sprintf("a job never completed (Wait did not return for %d of %d jobs; stop_mode=%d): parked=[%s]", nJobs-finishedClients, nJobs, stopMode, s.HangInfo)}
		}
		return &simk.Violation{Class: "C26/stop-hang", Detail: fmt.Sprintf("Stop (or the scenario) never returned: parked=[%s]", s.HangInfo)}
	}
	for j := range jobs {
		executed, failedExec := 0, 0
		var failErrs []error
		for k := range jobs[j].Tasks {
			rc := recs[j][k]
			if len(rc.enter) > 1 {
				return &simk.Violation{Class: "C26/task-twice", Detail: fmt.Sprintf("job %d task %d executed %d times", j, k, len(rc.enter))}
			}
			if len(rc.enter) == 1 {
				executed++
				if jobs[j].Tasks[k] {
					failedExec++
					failErrs = append(failErrs, errsOf[j][k])
				}
			}
		}
		err := waitErr[j]
		switch {
		case errors.Is(err, workers.ErrShutdown):
			if stopCallSeq == 0 || stopCallSeq > waitSeq[j] {
				return &simk.Violation{Class: "C26/spurious-shutdown", Detail: fmt.Sprintf("job %d reported shutdown although Stop had not been called", j)}
			}
			if executed != 0 {
				return &simk.Violation{Class: "C26/shutdown-after-running", Detail: fmt.Sprintf("job %d reported shutdown but %d of its tasks ran", j, executed)}
			}
		case err == nil:
			if failedExec > 0 {
				return &simk.Violation{Class: "C26/error-lost", Detail: fmt.Sprintf("job %d: %d executed task(s) failed but Wait returned nil", j, failedExec)}
			}
			if executed != len(jobs[j].Tasks) {
				return &simk.Violation{Class: "C26/task-skipped", Detail: fmt.Sprintf("job %d: Wait returned nil but only %d of %d tasks ran", j, executed, len(jobs[j].Tasks))}
			}
		default:
			ok := false
			for _, fe := range failErrs {
				if errors.Is(err, fe) {
					ok = true
				}
			}
			if !ok {
				return &simk.Violation{Class: "C26/spurious-error", Detail: fmt.Sprintf("job %d: Wait returned %q but no executed task of this job failed with it (failed executed=%d)", j, err, failedExec)}
			}
		}
		// all executed tasks finished before Wait returned
		for k := range jobs[j].Tasks {
			rc := recs[j][k]
			if len(rc.enter) == 1 && (len(rc.exit) != 1 || rc.exit[0] > waitSeq[j]) {
				return &simk.Violation{Class: "C26/wait-early", Detail: fmt.Sprintf("job %d: Wait returned before task %d finished", j, k)}
			}
		}
		if len(cbSeq[j]) > 1 {
			return &simk.Violation{Class: "C26/callback-twice", Detail: fmt.Sprintf("job %d completion callback ran %d times", j, len(cbSeq[j]))}
		}
		if len(cbSeq[j]) == 1 {
			for k := range jobs[j].Tasks {
				rc := recs[j][k]
				if len(rc.exit) == 1 && rc.exit[0] > cbSeq[j][0] {
					return &simk.Violation{Class: "C26/callback-early", Detail: fmt.Sprintf("job %d completion callback ran before task %d finished", j, k)}
				}
			}
		}
	}
	// job i completes before job i+1 starts (jobs were queued in index order)
	for i := 0; i < nJobs; i++ {
		var maxExit uint64
		for k := range recs[i] {
			if len(recs[i][k].exit) == 1 && recs[i][k].exit[0] > maxExit {
				maxExit = recs[i][k].exit[0]
			}
		}
		for j := i + 1; j < nJobs; j++ {
			for k := range recs[j] {
				if len(recs[j][k].enter) == 1 && recs[j][k].enter[0] < maxExit {
					return &simk.Violation{Class: "C26/jobs-overlap", Detail: fmt.Sprintf("task %d of job %d started (seq %d) before job %d completed (last exit seq %d)", k, j, recs[j][k].enter[0], i, maxExit)}
				}
			}
		}
	}
	{
		if stopRetSeq == 0 {
			return &simk.Violation{Class: "C26/stop-hang", Detail: "Stop never returned"}
		}
		if lateDone && !errors.Is(lateErr, workers.ErrShutdown) {
			return &simk.Violation{Class: "C26/newjob-after-stop", Detail: fmt.Sprintf("NewJob after Stop returned %v, want ErrShutdown", lateErr)}
		}
		// Goroutine-leak oracle ("Stop returns once all workers exit"): only when every
		// goroutine that could legitimately remain is excluded, i.e. no completion
		// callbacks were registered (a callback of a job answered with ErrShutdown
		// waits forever, which the statement does not speak about).
		anyCB := false
		for j := range jobs {
			anyCB = anyCB || jobs[j].CB
		}
		if s.Leaked && !anyCB {
			return &simk.Violation{Class: "C26/worker-leak", Detail: "Stop returned but pool goroutines were still blocked at the end of the run"}
		}
	}
	return nil
}

package e1

import (
	"fmt"
	"sort"
	"sync"

	"github.com/ava-labs/avalanchego/ids"
	"github.com/ava-labs/avalanchego/utils/set"

	"github.com/ava-labs/hypersdk/internal/eheap"
	"github.com/ava-labs/hypersdk/internal/emap"
	"github.com/ava-labs/hypersdk/verifsim/simk"
)

func init() {
	register(&simk.Prop{
		ID:    "C25",
		Level: "exploration",
		Rule: "seeded histories over <=8 IDs and <=5 expiry values (duplicate IDs with different expiries, many IDs per expiry, zero expiry): (a) EMap driven by 1..3 concurrent client tasks under the seeded scheduler (Add/SetMin/Any/Contains), each completed operation compared in completion order with an ordered-set reference; (b) ExpiryHeap histories (Add/Remove/SetMin/PeekMin/PopMin/Has/Len) against the same reference; " +
			"non-trivial = the history contains a SetMin that evicts something or a duplicate-ID add; distinct = distinct (history, schedule) hashes",
		Exec:        c25,
		Real:        []string{"internal/emap EMap", "internal/eheap ExpiryHeap", "internal/heap Heap + innerHeap"},
		Stub:        []string{"goroutine scheduling for the EMap clients"},
		Assumptions: []string{"EMap operations are atomic at their lock acquisition (yield point before every Lock/RLock); ExpiryHeap is not concurrency-safe by contract and is driven sequentially"},
	})
}

type c25Item struct {
	id  ids.ID
	exp int64
}

func (i c25Item) GetID() ids.ID    { return i.id }
func (i c25Item) GetExpiry() int64 { return i.exp }

func c25ID(i int) ids.ID { return ids.Empty.Prefix(uint64(i) + 1000) }

func c25(r *simk.Run) *simk.Violation {
	if r.C.Intn(2) == 0 {
		return c25EMap(r)
	}
	return c25Heap(r)
}

func c25EMap(r *simk.Run) *simk.Violation {
	c := r.C
	s := r.NewSim()
	s.KeepLog = simk.WantLog()
	nIDs := 1 + c.Intn(8)
	nClients := 1 + c.Intn(3)
	nOps := 1 + c.Intn(10)
	var mu sync.Mutex
	model := map[int]int64{} // id index -> expiry (non-zero only)
	var viol *simk.Violation
	var hist []string
	interesting := false
	fail := func(class, f string, a ...any) {
		if viol == nil {
			viol = &simk.Violation{Class: class, Detail: fmt.Sprintf(f, a...) + fmt.Sprintf("; history=%v", hist)}
		}
	}
	s.Run(r.T, func() {
		e := emap.NewEMap[c25Item]()
		var wg sync.WaitGroup
		for cl := 0; cl < nClients; cl++ {
			cl := cl
			wg.Add(1)
			s.Go("client", uint64(cl), func() {
				defer wg.Done()
				for i := 0; i < nOps; i++ {
					switch c.Weighted(5, 3, 3, 2) {
					case 0: // Add a batch
						n := 1 + c.Intn(3)
						items := make([]c25Item, n)
						idx := make([]int, n)
						for k := range items {
							idx[k] = c.Intn(nIDs)
							items[k] = c25Item{c25ID(idx[k]), int64(c.Intn(6))}
						}
						e.Add(items)
						mu.Lock()
						for k, it := range items {
							hist = append(hist, fmt.Sprintf("c%d:add(id%d,exp%d)", cl, idx[k], it.exp))
							if it.exp == 0 {
								continue
							}
							if _, ok := model[idx[k]]; ok {
								interesting = true
								continue
							}
							model[idx[k]] = it.exp
						}
						mu.Unlock()
					case 1: // SetMin
						t := int64(c.Intn(7))
						got := e.SetMin(t)
						mu.Lock()
						hist = append(hist, fmt.Sprintf("c%d:setmin(%d)", cl, t))
						want := map[ids.ID]bool{}
						for i, exp := range model {
							if exp < t {
								want[c25ID(i)] = true
								delete(model, i)
							}
						}
						if len(want) > 0 {
							interesting = true
						}
						seen := map[ids.ID]bool{}
						for _, id := range got {
							if seen[id] {
								fail("C25/emap-setmin-duplicate", "SetMin(%d) returned id %s twice", t, id)
							}
							seen[id] = true
							if !want[id] {
								fail("C25/emap-setmin-extra", "SetMin(%d) evicted id %s whose expiry is not below %d (or which is not present)", t, id, t)
							}
						}
						for id := range want {
							if !seen[id] {
								fail("C25/emap-setmin-missing", "SetMin(%d) did not return id %s although its expiry is below %d", t, id, t)
							}
						}
						mu.Unlock()
					case 2: // Any
						n := 1 + c.Intn(3)
						items := make([]c25Item, n)
						idx := make([]int, n)
						for k := range items {
							idx[k] = c.Intn(nIDs)
							items[k] = c25Item{c25ID(idx[k]), 1}
						}
						got := e.Any(items)
						mu.Lock()
						hist = append(hist, fmt.Sprintf("c%d:any(%v)", cl, idx))
						want := false
						for _, i := range idx {
							if _, ok := model[i]; ok {
								want = true
							}
						}
						if got != want {
							fail("C25/emap-membership", "Any(%v) = %v, reference says %v", idx, got, want)
						}
						mu.Unlock()
					case 3: // Contains
						n := 1 + c.Intn(4)
						items := make([]c25Item, n)
						idx := make([]int, n)
						for k := range items {
							idx[k] = c.Intn(nIDs)
							items[k] = c25Item{c25ID(idx[k]), 1}
						}
						stop := c.Bool(0.3)
						got := e.Contains(items, set.NewBits(), stop)
						mu.Lock()
						hist = append(hist, fmt.Sprintf("c%d:contains(%v,stop=%v)", cl, idx, stop))
						stopped := false
						for k, i := range idx {
							_, want := model[i]
							if stopped {
								if got.Contains(k) {
									fail("C25/emap-membership", "Contains(stop) marked index %d after the first hit", k)
								}
								continue
							}
							if got.Contains(k) != want {
								fail("C25/emap-membership", "Contains(%v)[%d] = %v, reference says %v", idx, k, got.Contains(k), want)
							}
							if want && stop {
								stopped = true
							}
						}
						mu.Unlock()
					}
				}
			})
		}
		wg.Wait()
	})
	r.Sample(map[string]any{"structure": "EMap", "clients": nClients, "history": hist})
	r.Fingerprint("emap|%v", hist)
	if interesting {
		r.Nontrivial()
	}
	if viol != nil {
		return viol
	}
	if v := s.Violation(); v != nil {
		return v
	}
	if s.Hung {
		return &simk.Violation{Class: "C25/hang", Detail: "EMap clients never finished: " + s.HangInfo}
	}
	return nil
}

func c25Heap(r *simk.Run) *simk.Violation {
	c := r.C
	nIDs := 1 + c.Intn(8)
	nOps := 1 + c.Intn(24)
	eh := eheap.New[c25Item](4)
	model := map[int]int64{}
	var hist []string
	interesting := false
	idxOf := func(id ids.ID) int {
		for i := 0; i < nIDs; i++ {
			if c25ID(i) == id {
				return i
			}
		}
		return -1
	}
	minExp := func() (int64, bool) {
		first := true
		var m int64
		for _, e := range model {
			if first || e < m {
				m, first = e, false
			}
		}
		return m, !first
	}
	fail := func(class, f string, a ...any) *simk.Violation {
		return &simk.Violation{Class: class, Detail: fmt.Sprintf(f, a...) + fmt.Sprintf("; history=%v", hist)}
	}
	check := func() *simk.Violation {
		if eh.Len() != len(model) {
			return fail("C25/heap-len", "Len() = %d, reference has %d entries", eh.Len(), len(model))
		}
		for i := 0; i < nIDs; i++ {
			_, want := model[i]
			if eh.Has(c25ID(i)) != want {
				return fail("C25/heap-membership", "Has(id%d) = %v, reference says %v", i, !want, want)
			}
		}
		it, ok := eh.PeekMin()
		m, has := minExp()
		if ok != has {
			return fail("C25/heap-min", "PeekMin ok=%v but reference non-empty=%v", ok, has)
		}
		if ok {
			i := idxOf(it.id)
			if e, in := model[i]; !in || e != it.exp || it.exp != m {
				return fail("C25/heap-min", "PeekMin returned (id%d, exp %d) but the minimum expiry in the reference is %d (entry present=%v)", i, it.exp, m, in)
			}
		}
		return nil
	}
	for i := 0; i < nOps; i++ {
		switch c.Weighted(6, 3, 2, 2) {
		case 0:
			id := c.Intn(nIDs)
			exp := int64(c.Intn(6))
			hist = append(hist, fmt.Sprintf("add(id%d,exp%d)", id, exp))
			eh.Add(c25Item{c25ID(id), exp})
			if _, ok := model[id]; ok {
				interesting = true
			} else {
				model[id] = exp
			}
		case 1:
			id := c.Intn(nIDs)
			hist = append(hist, fmt.Sprintf("remove(id%d)", id))
			it, ok := eh.Remove(c25ID(id))
			exp, want := model[id]
			if ok != want || (ok && (it.id != c25ID(id) || it.exp != exp)) {
				return fail("C25/heap-remove", "Remove(id%d) = (%v exp %d, %v), reference says present=%v exp %d", id, idxOf(it.id), it.exp, ok, want, exp)
			}
			delete(model, id)
		case 2:
			t := int64(c.Intn(7))
			hist = append(hist, fmt.Sprintf("setmin(%d)", t))
			got := eh.SetMin(t)
			want := map[int]bool{}
			for i, e := range model {
				if e < t {
					want[i] = true
					delete(model, i)
				}
			}
			if len(want) > 0 {
				interesting = true
			}
			seen := map[int]bool{}
			for _, it := range got {
				i := idxOf(it.id)
				if seen[i] || !want[i] {
					return fail("C25/heap-setmin", "SetMin(%d) returned id%d (exp %d) which the reference does not expire (or twice)", t, i, it.exp)
				}
				seen[i] = true
			}
			if len(seen) != len(want) {
				var w []int
				for i := range want {
					w = append(w, i)
				}
				sort.Ints(w)
				return fail("C25/heap-setmin", "SetMin(%d) returned %d entries, reference expires ids %v", t, len(got), w)
			}
		case 3:
			hist = append(hist, "popmin")
			it, ok := eh.PopMin()
			m, has := minExp()
			if ok != has {
				return fail("C25/heap-min", "PopMin ok=%v but reference non-empty=%v", ok, has)
			}
			if ok {
				i := idxOf(it.id)
				if e, in := model[i]; !in || e != it.exp || it.exp != m {
					return fail("C25/heap-min", "PopMin returned (id%d, exp %d) but the minimum expiry is %d", i, it.exp, m)
				}
				delete(model, i)
			}
		}
		if v := check(); v != nil {
			return v
		}
	}
	r.Sample(map[string]any{"structure": "ExpiryHeap", "history": hist})
	r.Fingerprint("heap|%v", hist)
	if interesting {
		r.Nontrivial()
	}
	return nil
}

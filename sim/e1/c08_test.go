package e1

import (
	"errors"
	"fmt"
	"sort"
	"sync"

	"github.com/ava-labs/hypersdk/internal/executor"
	"github.com/ava-labs/hypersdk/state"
	"github.com/ava-labs/hypersdk/verifsim/simk"
)

func init() {
	register(&simk.Prop{
		ID:    "C08",
		Level: "exploration",
		Rule: "seeded task lists (1..14 tasks over 1..4 keys, any Read/Allocate/Write mix, optional failing task and Stop) run on the real executor with 1..8 workers under the seeded scheduler; " +
			"a run is non-trivial if the scheduler had >=2 runnable tasks at some step and the list has a conflicting pair; distinct = distinct (schedule pick sequence, task list) hashes",
		Exec: c08,
		Real: []string{"internal/executor (Executor.Run/Wait/Stop, worker loop, runTask)"},
		Stub: []string{"goroutine scheduling (seeded scheduler over synctest bubble)", "task bodies (recording closures)"},
		Assumptions: []string{
			"interleavings are explored at the verifhook yield points (every channel receive, lock acquisition and wait in executor.go); code between two yield points is atomic",
		},
	})
}

type c08Task struct {
	Keys map[string]state.Permissions `json:"keys"`
	Fail bool                         `json:"fail,omitempty"`
}

var c08Perms = []state.Permissions{state.Read, state.Write, state.Allocate, state.Read, state.Allocate | state.Write}

func c08(r *simk.Run) *simk.Violation {
	c := r.C
	s := r.NewSim()
	s.KeepLog = simk.WantLog()
	maxT := 10
	if r.Tier == "thorough" {
		maxT = 14
	}
	nKeys := 1 + c.Intn(4)
	nTasks := 1 + c.Intn(maxT)
	workers := 1 + c.Intn(8)
	tasks := make([]c08Task, nTasks)
	for i := range tasks {
		tasks[i].Keys = map[string]state.Permissions{}
		nk := 1 + c.Intn(nKeys)
		if c.Bool(0.05) {
			nk = 0
		}
		for _, ki := range c.Perm(nKeys)[:nk] {
			tasks[i].Keys[fmt.Sprintf("k%d", ki)] = c08Perms[c.Intn(len(c08Perms))]
		}
		tasks[i].Fail = c.Bool(0.08)
	}
	stopAfter := -1 // Stop() called by the enqueuing goroutine after queuing this index
	stopTask := false
	switch c.Intn(8) {
	case 1:
		stopAfter = c.Intn(nTasks)
	case 2:
		stopTask = true
	}
	bodyYields := c.Intn(3)

	var mu sync.Mutex
	enter := make([][]uint64, nTasks)
	exit := make([][]uint64, nTasks)
	var stopSeq, waitSeq uint64
	var waitErr error
	waited := false
	errs := make([]error, nTasks)
	for i := range errs {
		errs[i] = fmt.Errorf("task %d failed", i)
	}

	s.Run(r.T, func() {
		e := executor.New(nTasks, workers, 10_000, nil)
		if stopTask {
			s.Go("stopper", 0, func() {
				mu.Lock()
				stopSeq = s.Seq()
				mu.Unlock()
				e.Stop()
			})
		}
		for i := range tasks {
			i := i
			keys := state.Keys{}
			for k, p := range tasks[i].Keys {
				keys[k] = p
			}
			e.Run(keys, func() error {
				mu.Lock()
				enter[i] = append(enter[i], s.Seq())
				mu.Unlock()
				for y := 0; y < bodyYields; y++ {
					s.Yield("task.body", uint64(i))
				}
				mu.Lock()
				exit[i] = append(exit[i], s.Seq())
				mu.Unlock()
				if tasks[i].Fail {
					return errs[i]
				}
				return nil
			})
			if stopAfter == i {
				mu.Lock()
				stopSeq = s.Seq()
				mu.Unlock()
				e.Stop()
			}
		}
		waitErr = e.Wait()
		waitSeq = s.Seq()
		waited = true
	})

	// ---- oracle over the recorded history ----
	conflicts := 0
	for i := 0; i < nTasks; i++ {
		for j := i + 1; j < nTasks; j++ {
			if c08Conflict(tasks[i], tasks[j]) {
				conflicts++
			}
		}
	}
	r.Sample(map[string]any{"tasks": tasks, "workers": workers, "stop_after": stopAfter, "stop_task": stopTask, "body_yields": bodyYields})
	r.Fingerprint("%v|%d|%d|%v", tasks, workers, stopAfter, stopTask)
	if s.MultiPicks > 0 && conflicts > 0 {
		r.Nontrivial()
	}
	if v := s.Violation(); v != nil {
		return v
	}
	if s.StepLimit {
		return nil
	}
	if s.Hung || !waited {
		return &simk.Violation{Class: "C08/hang", Detail: fmt.Sprintf("executor never completed Wait: parked=[%s]", s.HangInfo)}
	}
	// first error in event order
	type ev struct {
		seq uint64
		err error
	}
	var evs []ev
	if stopSeq != 0 && stopSeq < waitSeq { // a Stop after Wait returned cannot affect its result
		evs = append(evs, ev{stopSeq, executor.ErrStopped})
	}
	for i := range tasks {
		if len(enter[i]) > 1 {
			return &simk.Violation{Class: "C08/executed-twice", Detail: fmt.Sprintf("task %d executed %d times", i, len(enter[i]))}
		}
		if len(enter[i]) != len(exit[i]) {
			return &simk.Violation{Class: "C08/hang", Detail: fmt.Sprintf("task %d entered but never returned", i)}
		}
		if tasks[i].Fail && len(exit[i]) == 1 {
			evs = append(evs, ev{exit[i][0], errs[i]})
		}
	}
	sort.Slice(evs, func(a, b int) bool { return evs[a].seq < evs[b].seq })
	var wantErr error
	if len(evs) > 0 {
		wantErr = evs[0].err
	}
	if !errors.Is(waitErr, wantErr) || (wantErr == nil) != (waitErr == nil) {
		return &simk.Violation{Class: "C08/wrong-error", Detail: fmt.Sprintf("Wait returned %v, first error in event order was %v", waitErr, wantErr)}
	}
	for i := range tasks {
		if len(enter[i]) == 0 && wantErr == nil {
			return &simk.Violation{Class: "C08/task-skipped", Detail: fmt.Sprintf("task %d never executed although nothing failed and Stop was not called", i)}
		}
		if len(enter[i]) == 0 && len(evs) > 0 {
			// a skipped task is only legitimate if the error was visible: fine
			continue
		}
	}
	for i := 0; i < nTasks; i++ {
		for j := i + 1; j < nTasks; j++ {
			if !c08Conflict(tasks[i], tasks[j]) {
				continue
			}
			if len(enter[j]) == 1 && len(enter[i]) == 0 {
				return &simk.Violation{Class: "C08/order", Detail: fmt.Sprintf("task %d ran although earlier conflicting task %d was skipped (so %d started before %d finished)", j, i, j, i)}
			}
			if len(enter[j]) == 1 && len(exit[i]) == 1 && !(exit[i][0] < enter[j][0]) {
				return &simk.Violation{Class: "C08/order", Detail: fmt.Sprintf("conflicting tasks %d and %d overlapped or ran out of order: exit(%d)=%d enter(%d)=%d", i, j, i, exit[i][0], j, enter[j][0])}
			}
		}
	}
	return nil
}

func c08Conflict(a, b c08Task) bool {
	for k, pa := range a.Keys {
		if pb, ok := b.Keys[k]; ok {
			if pa != state.Read || pb != state.Read {
				return true
			}
		}
	}
	return false
}

package e1

import (
	"context"
	"errors"
	"fmt"
	"sort"
	"sync"

	"github.com/ava-labs/avalanchego/database"
	"github.com/ava-labs/avalanchego/ids"

	"github.com/ava-labs/hypersdk/internal/fetcher"
	"github.com/ava-labs/hypersdk/keys"
	"github.com/ava-labs/hypersdk/state"
	"github.com/ava-labs/hypersdk/verifsim/simk"
)

func init() {
	register(&simk.Prop{
		ID:    "C24",
		Level: "exploration",
		Rule: "seeded blocks of 1..8 transactions with overlapping declared key sets over <=6 keys (some absent in the parent, empty values, duplicate transaction IDs in 1/5 of the non-avoid runs), fetch concurrency 1..16, a recording parent state that injects a read error at a chosen key in half of the runs; " +
			"Fetch (block order), Get (one consumer task per tx), Wait and the fetch workers are interleaved by the seeded scheduler; non-trivial = >=2 runnable tasks at some step and >=2 txs sharing a key or an injected fault fired; distinct = (pick sequence, block, fault) hashes",
		Exec:        c24,
		Real:        []string{"internal/fetcher (Fetch/Get/Wait/Stop, workers)", "state.Keys.WithoutPermissions", "keys.NumChunks"},
		Stub:        []string{"parent state.Immutable (recording map with injected read errors)", "goroutine scheduling", "transaction execution (consumer tasks that only call Get)"},
		Assumptions: []string{"the processor-level half of the property (metadata keys, values seen by actions) is exercised by the E2 checks C01/C05 on a recording parent view"},
	})
}

type c24Parent struct {
	s       *simk.Sim
	mu      sync.Mutex
	vals    map[string][]byte
	reads   map[string]int
	failKey string
	failErr error
	fired   bool
}

func (p *c24Parent) GetValue(_ context.Context, key []byte) ([]byte, error) {
	k := string(key)
	p.s.Yield("parent.read", hashS(k))
	p.mu.Lock()
	defer p.mu.Unlock()
	p.reads[k]++
	if k == p.failKey && p.failErr != nil {
		p.fired = true
		p.s.FaultFired("parent-read-error")
		return nil, p.failErr
	}
	v, ok := p.vals[k]
	if !ok {
		return nil, database.ErrNotFound
	}
	return v, nil
}

func hashS(s string) uint64 {
	h := uint64(14695981039346656037)
	for i := 0; i < len(s); i++ {
		h ^= uint64(s[i])
		h *= 1099511628211
	}
	return h
}

type c24Tx struct {
	ID       int      `json:"id"`
	Declared []string `json:"declared"`
	Keys     []string `json:"-"` // what the processor passes to Fetch: Keys.WithoutPermissions()
}

var errC24Injected = errors.New("injected parent read error")

func c24(r *simk.Run) *simk.Violation {
	c := r.C
	s := r.NewSim()
	s.KeepLog = simk.WantLog()
	nKeys := 1 + c.Intn(6)
	allKeys := make([]string, nKeys)
	for i := range allKeys {
		allKeys[i] = string(keys.EncodeChunks([]byte(fmt.Sprintf("key%d", i)), uint16(1+c.Intn(3))))
	}
	parent := &c24Parent{s: s, vals: map[string][]byte{}, reads: map[string]int{}}
	for _, k := range allKeys {
		switch c.Intn(4) {
		case 0: // absent
		case 1:
			parent.vals[k] = []byte{}
		default:
			parent.vals[k] = []byte(fmt.Sprintf("v-%s-%d", k[:4], c.Intn(100)))
		}
	}
	nTx := 1 + c.Intn(8)
	conc := 1 + c.Intn(16)
	txs := make([]c24Tx, 0, nTx)
	dupIDs := !r.Avoid && c.Intn(5) == 0
	for i := 0; i < nTx; i++ {
		if dupIDs && len(txs) > 0 && c.Bool(0.4) {
			// identical transaction repeated: same ID, same declared keys
			src := txs[c.Intn(len(txs))]
			txs = append(txs, c24Tx{ID: src.ID, Declared: src.Declared, Keys: src.Keys})
			continue
		}
		nk := c.Intn(nKeys + 1)
		perm := c.Perm(nKeys)[:nk]
		ks := state.Keys{}
		for _, ki := range perm {
			// every declared permission lets the transaction observe the key's prior value
			ks[allKeys[ki]] = []state.Permissions{state.Read, state.Allocate, state.Write, state.Allocate | state.Write, state.All}[c.Intn(5)]
		}
		// the processor flattens the declared key map with WithoutPermissions
		flat := ks.WithoutPermissions()
		decl := make([]string, 0, len(ks))
		for k := range ks {
			decl = append(decl, k)
		}
		sort.Strings(decl)
		txs = append(txs, c24Tx{ID: i + 1, Declared: decl, Keys: flat})
	}
	if c.Bool(0.5) && nKeys > 0 {
		parent.failKey = allKeys[c.Intn(nKeys)]
		parent.failErr = errC24Injected
	}
	stopAt := -1
	if c.Intn(10) == 0 {
		stopAt = c.Intn(nTx)
	}
	mkID := func(i int) ids.ID { return ids.Empty.Prefix(uint64(i)) }

	type getRes struct {
		storage map[string][]byte
		err     error
		done    bool
	}
	results := make([]getRes, len(txs))
	fetchErrs := make([]error, len(txs))
	fetched := make([]bool, len(txs))
	var waitErr error
	waited := false
	var mu sync.Mutex

	s.Run(r.T, func() {
		f := fetcher.New(parent, len(txs), conc)
		var wg sync.WaitGroup
		for i := range txs {
			i := i
			err := f.Fetch(context.Background(), mkID(txs[i].ID), txs[i].Keys)
			mu.Lock()
			fetchErrs[i] = err
			fetched[i] = true
			mu.Unlock()
			if err != nil {
				break
			}
			wg.Add(1)
			s.Go("consumer", uint64(i), func() {
				defer wg.Done()
				st, err := f.Get(mkID(txs[i].ID))
				mu.Lock()
				results[i] = getRes{st, err, true}
				mu.Unlock()
			})
			if stopAt == i {
				f.Stop()
			}
		}
		waitErr = f.Wait()
		waited = true
		wg.Wait()
	})

	shared := false
	seen := map[string]bool{}
	for _, tx := range txs {
		for _, k := range tx.Declared {
			if seen[k] {
				shared = true
			}
			seen[k] = true
		}
	}
	r.Sample(map[string]any{"txs": txs, "concurrency": conc, "fail_key": parent.failKey, "parent_keys": sortedKeys(parent.vals), "dup_ids": dupIDs, "stop_at": stopAt})
	r.Fingerprint("%v|%d|%s|%v|%d", txs, conc, parent.failKey, sortedKeys(parent.vals), stopAt)
	if s.MultiPicks > 0 && (shared || parent.fired) {
		r.Nontrivial()
	}
	if v := s.Violation(); v != nil {
		return v
	}
	if s.StepLimit {
		return nil
	}
	if s.Hung || !waited {
		return &simk.Violation{Class: "C24/hang", Detail: fmt.Sprintf("fetching never completed (fault fired=%v, stop=%d): parked=[%s]", parent.fired, stopAt, s.HangInfo)}
	}
	declared := map[string]bool{}
	for i, tx := range txs {
		if !fetched[i] {
			break
		}
		for _, k := range tx.Declared {
			declared[k] = true
		}
	}
	for k, n := range parent.reads {
		if !declared[k] {
			return &simk.Violation{Class: "C24/undeclared-read", Detail: fmt.Sprintf("parent state was asked for key %q which no transaction declared", k)}
		}
		if n > 1 {
			return &simk.Violation{Class: "C24/read-twice", Detail: fmt.Sprintf("key %q read %d times from the parent", k, n)}
		}
	}
	for i, tx := range txs {
		res := results[i]
		if !fetched[i] || fetchErrs[i] != nil {
			continue
		}
		if !res.done {
			return &simk.Violation{Class: "C24/hang", Detail: fmt.Sprintf("Get for tx %d never returned", i)}
		}
		if res.err != nil {
			if !parent.fired && stopAt < 0 {
				return &simk.Violation{Class: "C24/spurious-error", Detail: fmt.Sprintf("Get for tx %d returned %v without any injected fault or Stop", i, res.err)}
			}
			continue
		}
		// a successful Get must expose exactly the parent's values for the declared keys
		for _, k := range tx.Declared {
			want, exists := parent.vals[k]
			got, ok := res.storage[k]
			if k == parent.failKey && parent.failErr != nil {
				return &simk.Violation{Class: "C24/failed-read-as-absent", Detail: fmt.Sprintf("tx %d: Get succeeded although reading declared key %q failed (seen present=%v)", i, k, ok)}
			}
			if exists != ok || (exists && string(want) != string(got)) {
				return &simk.Violation{Class: "C24/wrong-value", Detail: fmt.Sprintf("tx %d (id %d) key %q: parent has (%q, exists=%v) but the transaction was given (%q, exists=%v)", i, tx.ID, k, want, exists, got, ok)}
			}
		}
		if len(res.storage) > len(tx.Declared) {
			return &simk.Violation{Class: "C24/extra-keys", Detail: fmt.Sprintf("tx %d was given %d keys but declared %d", i, len(res.storage), len(tx.Declared))}
		}
	}
	if parent.fired && waitErr == nil {
		return &simk.Violation{Class: "C24/error-swallowed", Detail: "a parent read failed but Wait returned nil"}
	}
	if waitErr != nil && !parent.fired && stopAt < 0 {
		return &simk.Violation{Class: "C24/spurious-error", Detail: fmt.Sprintf("Wait returned %v without any injected fault or Stop", waitErr)}
	}
	return nil
}

func sortedKeys(m map[string][]byte) []string {
	ks := make([]string, 0, len(m))
	for k := range m {
		ks = append(ks, fmt.Sprintf("%q=%q", k, m[k]))
	}
	sort.Strings(ks)
	return ks
}

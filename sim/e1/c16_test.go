package e1

import (
	"context"
	"encoding/hex"
	"errors"
	"fmt"
	"sync"

	"github.com/ava-labs/avalanchego/utils/logging"

	"github.com/ava-labs/hypersdk/auth"
	"github.com/ava-labs/hypersdk/chain"
	"github.com/ava-labs/hypersdk/crypto/bls"
	"github.com/ava-labs/hypersdk/crypto/ed25519"
	"github.com/ava-labs/hypersdk/crypto/secp256r1"
	"github.com/ava-labs/hypersdk/internal/workers"
	"github.com/ava-labs/hypersdk/verifsim/simk"
)

func init() {
	register(&simk.Prop{
		ID:    "C16",
		Level: "exploration",
		Rule: "sequences of 1..3 blocks (earlier ones possibly abandoned without waiting, as when block verification returns early) on one worker pool, each a seeded signature set of 0..40 auths mixing ed25519 (batched), secp256r1 and BLS with 0..3 invalid signatures at chosen positions (incl. first/last of a batch, only in the final partial batch, counts at batch-1, batch, batch+1, k*batch), 1..16 verification workers; in 40% of the runs plain batching engines are registered for secp256r1 and BLS as well (several types with trailing partial batches); 6% of the ed25519 auths are small-order keys with R = identity, s = 0; in 10% of the runs the pool is stopped while the last block is being verified; the real AuthBatch + worker pool + real signature verification run under the seeded scheduler (Add, batch workers, pool workers, Done, Wait interleaved); verdict compared with one-by-one Auth.Verify; " +
			"non-trivial = >=2 runnable tasks at some step and >= 2 signatures; distinct = distinct (schedule, type/validity vector, workers) hashes. The block-level half (Processor.Execute fails iff a signature is invalid) is exercised by the E2 engine.",
		Exec: c16,
		Real: []string{"chain.AuthBatch", "auth.ED25519Batch / engines", "auth.{ED25519,SECP256R1,BLS}.Verify with real cryptography", "internal/workers ParallelWorkers"},
		Stub: []string{"goroutine scheduling", "transactions (random digests signed directly)"},
	})
}

var c16Keys struct {
	once sync.Once
	ed   []*auth.ED25519Factory
	r1   []*auth.SECP256R1Factory
	bl   []*auth.BLSFactory
}

func c16Init() {
	c16Keys.once.Do(func() {
		for i := 0; i < 3; i++ {
			p, err := ed25519.GeneratePrivateKey()
			if err != nil {
				panic(err)
			}
			c16Keys.ed = append(c16Keys.ed, auth.NewED25519Factory(p))
			q, err := secp256r1.GeneratePrivateKey()
			if err != nil {
				panic(err)
			}
			c16Keys.r1 = append(c16Keys.r1, auth.NewSECP256R1Factory(q))
			b, err := bls.GeneratePrivateKey()
			if err != nil {
				panic(err)
			}
			c16Keys.bl = append(c16Keys.bl, auth.NewBLSFactory(b))
		}
	})
}

type c16Sig struct {
	Type    string `json:"type"`
	Invalid bool   `json:"invalid,omitempty"`
	digest  []byte
	auth    chain.Auth
}

type c16Block struct {
	sigs        []*c16Sig
	counts      map[uint8]int
	wantInvalid bool
	abandoned   bool // the verifier does not wait for the job (Processor.Execute returning early)
	waitErr     error
	waited      bool
}

func c16GenBlock(c *simk.Choices, tier string) (*c16Block, error) {
	var n int
	switch c.Intn(4) {
	case 0:
		n = c.Intn(5)
	case 1: // around ed25519 batch boundaries: batch = max(count/cores, 4)
		b := 4 * (1 + c.Intn(3))
		n = b*(1+c.Intn(3)) + c.Intn(3) - 1
	default:
		n = c.Intn(41)
	}
	if tier != "thorough" && n > 24 {
		n = 24
	}
	mix := c.Intn(4) // 0: ed25519 only, 1: mostly ed25519, 2: uniform, 3: no batched type
	blk := &c16Block{sigs: make([]*c16Sig, n), counts: map[uint8]int{}}
	nInvalid := c.Weighted(4, 3, 2, 1)
	invalidAt := map[int]bool{}
	for try := 0; try < 12 && len(invalidAt) < nInvalid && len(invalidAt) < n; try++ {
		switch c.Intn(4) {
		case 0:
			invalidAt[0] = true
		case 1:
			invalidAt[n-1] = true
		default:
			invalidAt[c.Intn(n)] = true
		}
	}
	for i := range blk.sigs {
		var t int
		switch mix {
		case 0:
			t = 0
		case 1:
			t = c.Weighted(8, 1, 1)
		case 2:
			t = c.Intn(3)
		default:
			t = 1 + c.Intn(2)
		}
		digest := []byte(fmt.Sprintf("digest-%d-%d-%d", i, c.Intn(1<<20), c.Intn(1<<20)))
		signed := digest
		if invalidAt[i] {
			signed = append([]byte("other-"), digest...)
		}
		var a chain.Auth
		var err error
		var name string
		switch t {
		case 0:
			a, err = c16Keys.ed[c.Intn(3)].Sign(signed)
			name = "ed25519"
			if c.Bool(0.06) {
				// edge of the signature scheme: a public key of small order with R = identity, s = 0.
				// Whatever the scheme's verdict on it is, the batched and the one-by-one verifier must agree.
				var pk ed25519.PublicKey
				var sig ed25519.Signature
				raw, _ := hex.DecodeString([]string{
					"c7176a703d4dd84fba3c0b760d10670f2a2053fa2c39ccc64ec7fd7792ac037a",
					"26e8958fc2b227b045c3f489f2ef98f0d5dfac05d3c63339b13802886d53fc05",
					"0000000000000000000000000000000000000000000000000000000000000000",
				}[c.Intn(3)])
				copy(pk[:], raw)
				sig[0] = 1
				a = &auth.ED25519{Signer: pk, Signature: sig}
				name = "ed25519-small-order"
			}
		case 1:
			a, err = c16Keys.r1[c.Intn(3)].Sign(signed)
			name = "secp256r1"
		default:
			a, err = c16Keys.bl[c.Intn(3)].Sign(signed)
			name = "bls"
		}
		if err != nil {
			return nil, err
		}
		blk.sigs[i] = &c16Sig{Type: name, Invalid: invalidAt[i], digest: digest, auth: a}
		blk.counts[a.GetTypeID()]++
	}
	// reference verdict: one by one
	for _, sg := range blk.sigs {
		if sg.auth.Verify(context.Background(), sg.digest) != nil {
			blk.wantInvalid = true
		}
	}
	return blk, nil
}

func c16(r *simk.Run) *simk.Violation {
	c16Init()
	c := r.C
	s := r.NewSim()
	s.KeepLog = simk.WantLog()
	cores := 1 + c.Intn(16)
	nBlocks := 1 + c.Intn(3)
	blocks := make([]*c16Block, nBlocks)
	total := 0
	for i := range blocks {
		b, err := c16GenBlock(c, r.Tier)
		if err != nil {
			return &simk.Violation{Class: "harness", Detail: err.Error()}
		}
		// all but the last block may be abandoned by the verifier (early error return)
		b.abandoned = i < nBlocks-1 && c.Bool(0.4)
		blocks[i] = b
		total += len(b.sigs)
	}
	stopped := false
	// in a tenth of the runs the node shuts the pool down while the last block's signatures are still being
	// verified: the verdict of a job that was accepted before the shutdown must still be right
	stopDuringLast := c.Bool(0.1)
	extraEngines := c.Bool(0.4)
	s.Run(r.T, func() {
		w := workers.NewParallel(cores, 4)
		var dones sync.WaitGroup
		var stopWg sync.WaitGroup
		for bi, blk := range blocks {
			job, err := w.NewJob(len(blk.sigs) + 1)
			if err != nil {
				s.Violate("C16/newjob", "NewJob failed: %v", err)
				return
			}
			engines := auth.DefaultEngines()
			if extraEngines {
				// a VM may register batch engines for further signature types; every type's trailing partial
				// batch has to reach the verification job
				engines[auth.SECP256R1ID] = &c16Engine{}
				engines[auth.BLSID] = &c16Engine{}
			}
			batch := chain.NewAuthBatch(logging.NoLog{}, engines, job, blk.counts)
			for si, sg := range blk.sigs {
				if stopDuringLast && bi == len(blocks)-1 && si == len(blk.sigs)/2 {
					stopWg.Add(1)
					s.Go("pool.Stop", 0, func() {
						defer stopWg.Done()
						w.Stop()
					})
				}
				batch.Add(sg.digest, sg.auth)
				s.Yield("adder.next", uint64(bi))
			}
			// the processor hands Done to its own goroutine
			dones.Add(1)
			s.Go("batch.Done", uint64(bi), func() {
				defer dones.Done()
				batch.Done(func() {})
			})
			if !blk.abandoned {
				blk.waitErr = job.Wait()
				blk.waited = true
			}
		}
		dones.Wait()
		if stopDuringLast && len(blocks[len(blocks)-1].sigs) > 0 {
			stopWg.Wait()
		} else {
			w.Stop()
		}
		stopped = true
	})
	var sample []any
	for _, blk := range blocks {
		ss := make([]string, len(blk.sigs))
		for i, sg := range blk.sigs {
			ss[i] = sg.Type
			if sg.Invalid {
				ss[i] += "!"
			}
		}
		sample = append(sample, map[string]any{"sigs": ss, "abandoned": blk.abandoned})
	}
	r.Sample(map[string]any{"workers": cores, "blocks": sample})
	r.Fingerprint("%d|%v", cores, sample)
	if s.MultiPicks > 0 && total >= 2 {
		r.Nontrivial()
	}
	if v := s.Violation(); v != nil {
		return v
	}
	if s.StepLimit {
		return nil
	}
	if s.Hung || !stopped {
		return &simk.Violation{Class: "C16/hang", Detail: fmt.Sprintf("signature verification never completed: parked=[%s]; workers=%d blocks=%v", s.HangInfo, cores, sample)}
	}
	for bi, blk := range blocks {
		if blk.abandoned {
			continue
		}
		if blk.wantInvalid && blk.waitErr == nil {
			return &simk.Violation{Class: "C16/invalid-signature-accepted", Detail: fmt.Sprintf("block %d: one-by-one verification rejects at least one signature but the batched/parallel job succeeded; workers=%d blocks=%v", bi, cores, sample)}
		}
		if stopDuringLast && bi == len(blocks)-1 && errors.Is(blk.waitErr, workers.ErrShutdown) {
			continue // a job overtaken by the shutdown may be refused as a whole; it must never be reported verified
		}
		if !blk.wantInvalid && blk.waitErr != nil {
			return &simk.Violation{Class: "C16/valid-signatures-rejected", Detail: fmt.Sprintf("block %d: every signature verifies one by one but the batched/parallel job failed with %v; workers=%d blocks=%v", bi, blk.waitErr, cores, sample)}
		}
	}
	return nil
}

// c16Engine is a plain batching engine for any signature type: it collects (message, auth) pairs and
// verifies them one by one when a batch is full or when the remainder is flushed.
type c16Engine struct{}

func (*c16Engine) Cache(chain.Auth) {}

func (*c16Engine) GetBatchVerifier(cores int, count int) chain.AuthBatchVerifier {
	size := max(count/max(cores, 1), 3)
	return &c16Batch{size: size}
}

type c16Pair struct {
	msg []byte
	a   chain.Auth
}

type c16Batch struct {
	size    int
	pending []c16Pair
}

func c16VerifyAll(ps []c16Pair) func() error {
	return func() error {
		for _, p := range ps {
			if err := p.a.Verify(context.Background(), p.msg); err != nil {
				return err
			}
		}
		return nil
	}
}

func (b *c16Batch) Add(msg []byte, a chain.Auth) func() error {
	b.pending = append(b.pending, c16Pair{msg, a})
	if len(b.pending) < b.size {
		return nil
	}
	ps := b.pending
	b.pending = nil
	return c16VerifyAll(ps)
}

func (b *c16Batch) Done() []func() error {
	if len(b.pending) == 0 {
		return nil
	}
	ps := b.pending
	b.pending = nil
	return []func() error{c16VerifyAll(ps)}
}

// Package simk is the deterministic-simulation kernel: choice tape, seeded
// scheduler over a testing/synctest bubble, violation/probe bookkeeping,
// tape shrinking, replay, and the worker loop shared by all engines.
package simk

import (
	"math/rand/v2"
)

// Choices is the single source of every decision of a run. In seeded mode each
// draw comes from a PCG stream and is recorded; in tape mode draws are read
// back from a recorded (possibly shrunk) tape and 0 is returned past its end.
type Choices struct {
	rng    *rand.PCG
	replay bool
	tape   []uint32
	pos    int
	rec    []uint32
}

func NewSeeded(seed uint64) *Choices {
	return &Choices{rng: rand.NewPCG(seed, seed^0x9e3779b97f4a7c15)}
}

func NewTape(t []uint32) *Choices {
	return &Choices{replay: true, tape: t}
}

// Tape returns the draws made so far (as effective values).
func (c *Choices) Tape() []uint32 { return c.rec }

// Intn returns a value in [0,n). 0 is always the "simplest" choice.
func (c *Choices) Intn(n int) int {
	if n <= 1 {
		// still consume nothing: a forced choice is not a choice
		return 0
	}
	if len(c.rec) > 2_000_000 {
		panic("simk: choice budget exceeded (generator loop that does not terminate on an all-zero tape?)")
	}
	var v uint32
	if c.replay {
		if c.pos < len(c.tape) {
			v = c.tape[c.pos] % uint32(n)
		}
		c.pos++
	} else {
		v = uint32(c.rng.Uint64() % uint64(n))
	}
	c.rec = append(c.rec, v)
	return int(v)
}

// Range returns a value in [lo,hi].
func (c *Choices) Range(lo, hi int) int {
	if hi <= lo {
		return lo
	}
	return lo + c.Intn(hi-lo+1)
}

// Bool is true with probability p (permille precision); the simplest choice is false.
func (c *Choices) Bool(p float64) bool {
	if p <= 0 {
		return false
	}
	th := int(p * 1000)
	if th >= 1000 {
		return true
	}
	// true for the top th values so that 0 means false
	return c.Intn(1000) >= 1000-th
}

// Pick returns an index weighted by w; index 0 is the simplest.
func (c *Choices) Weighted(w ...int) int {
	tot := 0
	for _, x := range w {
		tot += x
	}
	v := c.Intn(tot)
	for i, x := range w {
		if v < x {
			return i
		}
		v -= x
	}
	return len(w) - 1
}

// U64 draws a 64-bit value biased to boundary values.
func (c *Choices) U64() uint64 {
	switch c.Intn(8) {
	case 0:
		return uint64(c.Intn(4))
	case 1:
		return uint64(c.Intn(1000))
	case 2:
		return ^uint64(0) - uint64(c.Intn(4))
	case 3:
		return uint64(1)<<uint(c.Intn(64)) - uint64(c.Intn(2))
	case 4:
		return uint64(1)<<uint(c.Intn(64)) + uint64(c.Intn(3))
	case 5:
		return uint64(c.Intn(1 << 30))
	case 6:
		return uint64(c.Intn(1<<31))<<32 | uint64(c.Intn(1<<31))
	default:
		return uint64(c.Intn(1<<16)) * uint64(c.Intn(1<<16))
	}
}

// Perm returns a permutation of 0..n-1 (identity is the simplest).
func (c *Choices) Perm(n int) []int {
	p := make([]int, n)
	for i := range p {
		p[i] = i
	}
	for i := 0; i < n-1; i++ {
		j := i + c.Intn(n-i)
		p[i], p[j] = p[j], p[i]
	}
	return p
}

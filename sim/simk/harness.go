package simk

import (
	"encoding/json"
	"fmt"
	"os"
	"path/filepath"
	"runtime"
	"sort"
	"strconv"
	"strings"
	"sync/atomic"
	"testing"
	"time"
)

// Run is the context handed to a property scenario for one simulated execution.
type Run struct {
	T    *testing.T
	C    *Choices
	S    *Sim
	Tier string
	// Avoid is true when the run must stay clear of the triggers of recorded
	// known findings (so that a different break of the property is not masked).
	Avoid bool

	sample     any
	nontrivial bool
	fp         uint64
	simTime    time.Duration
}

// Sample records a human-readable description of this run's case.
func (r *Run) Sample(v any) { r.sample = v }

// Nontrivial marks the run as non-trivial by the property's stated rule.
func (r *Run) Nontrivial() { r.nontrivial = true }

// Fingerprint folds scenario state into the distinctness hash.
func (r *Run) Fingerprint(format string, a ...any) {
	msg := fmt.Sprintf(format, a...)
	h := r.fp ^ 14695981039346656037
	for i := 0; i < len(msg); i++ {
		h ^= uint64(msg[i])
		h *= 1099511628211
	}
	r.fp = h
}

// NewSim creates the (single) scheduler of this run.
func (r *Run) NewSim() *Sim {
	r.S = NewSim(r.C)
	return r.S
}

// Prop is a registered property check.
type Prop struct {
	ID    string
	Level string // exploration | fault_enumeration
	Rule  string // how cases are generated and what makes one non-trivial/distinct
	// Exec runs one scenario. It reports violations through the returned value
	// (nil = property held on this run).
	Exec func(r *Run) *Violation
	// Real/Stub component lists for evidence.
	Real, Stub  []string
	Assumptions []string
	// QuickRuns/ThoroughRuns cap the number of runs (0 = time budget only).
	QuickRuns, ThoroughRuns int
}

type Outcome struct {
	Viol       *Violation
	Trace      uint64
	Tape       []uint32
	Steps      int
	MultiPicks int
	Nontrivial bool
	Sample     any
	Probes     map[string]int
	Faults     map[string]int
	SimTime    time.Duration
	StepLimit  bool
	Log        []string
}

func execOnce(t *testing.T, p *Prop, c *Choices, tier string, avoid bool, keepLog bool) (out Outcome) {
	r := &Run{T: t, C: c, Tier: tier, Avoid: avoid}
	func() {
		defer func() {
			if rec := recover(); rec != nil {
				out.Viol = &Violation{Class: "panic", Detail: fmt.Sprintf("harness/scenario panic: %v", rec)}
			}
		}()
		keepLogNext = keepLog
		v := p.Exec(r)
		if v != nil {
			out.Viol = v
		}
	}()
	out.Tape = append([]uint32(nil), c.Tape()...)
	out.Sample = r.sample
	out.Nontrivial = r.nontrivial
	out.Trace = r.fp
	if r.S != nil {
		out.Trace ^= r.S.TraceHash()
		out.Steps = r.S.Steps
		out.MultiPicks = r.S.MultiPicks
		out.Probes = r.S.Probes
		out.Faults = r.S.Faults
		out.SimTime = r.S.SimTime
		out.StepLimit = r.S.StepLimit
		out.Log = r.S.Log
		if out.Viol == nil {
			out.Viol = r.S.Violation()
		}
	}
	return out
}

// keepLogNext is read by scenarios via KeepLog() when creating their Sim.
var keepLogNext bool

// WantLog tells a scenario whether to keep the full event log (replay mode).
func WantLog() bool { return keepLogNext }

type KnownFinding struct {
	Property string `json:"property"`
	Class    string `json:"class"`
	What     string `json:"what"`
	Status   string `json:"status"` // "open" suppresses; "fixed" suppresses nothing
}

func loadKnown(path, prop string) []KnownFinding {
	b, err := os.ReadFile(path)
	if err != nil {
		return nil
	}
	var res []KnownFinding
	for _, line := range strings.Split(string(b), "\n") {
		line = strings.TrimSpace(line)
		if line == "" || strings.HasPrefix(line, "#") || strings.HasPrefix(line, "fixed:") {
			continue
		}
		var k KnownFinding
		if json.Unmarshal([]byte(line), &k) == nil && k.Property == prop && k.Status != "fixed" {
			res = append(res, k)
		}
	}
	return res
}

type ReplayFile struct {
	Property string   `json:"property"`
	Seed     uint64   `json:"seed"`
	Run      int      `json:"run"`
	Tier     string   `json:"tier"`
	Avoid    bool     `json:"avoid"`
	Class    string   `json:"class"`
	Detail   string   `json:"detail"`
	Tape     []uint32 `json:"tape"`
	RawLen   int      `json:"raw_tape_len"`
	Sample   any      `json:"sample,omitempty"`
	LogTail  []string `json:"event_log_tail,omitempty"`
	Shrunk   int      `json:"shrink_executions"`
}

type WorkerResult struct {
	Property    string            `json:"property"`
	Worker      int               `json:"worker"`
	Runs        int               `json:"runs"`
	Nontrivial  int               `json:"nontrivial"`
	Steps       int               `json:"steps"`
	MultiPicks  int               `json:"multi_picks"`
	SimTimeS    float64           `json:"sim_time_s"`
	WallS       float64           `json:"wall_s"`
	Probes      map[string]int    `json:"probes"`
	Faults      map[string]int    `json:"faults"`
	Sketch      []uint64          `json:"sketch"` // k smallest distinct trace hashes of non-trivial runs
	SketchK     int               `json:"sketch_k"`
	Samples     []any             `json:"samples"`
	Known       map[string]int    `json:"known"`
	KnownWhat   map[string]string `json:"known_what"`
	StepLimited int               `json:"step_limited"`
	DetChecks   int               `json:"determinism_checks"`
	NonDet      string            `json:"nondeterminism,omitempty"`
	Stalled     string            `json:"stalled,omitempty"`
	// HarnessFailures counts runs whose scenario preconditions failed (violation class ".../harness").
	HarnessFailures int         `json:"harness_failures,omitempty"`
	HarnessDetail   string      `json:"harness_detail,omitempty"`
	Level           string      `json:"level"`
	Rule            string      `json:"rule"`
	Real            []string    `json:"real"`
	Stub            []string    `json:"stub"`
	Assumptions     []string    `json:"assumptions"`
	Violation       *ReplayFile `json:"violation,omitempty"`
	ReplayPath      string      `json:"replay_path,omitempty"`
}

func envInt(name string, def int) int {
	if v := os.Getenv(name); v != "" {
		if n, err := strconv.Atoi(v); err == nil {
			return n
		}
	}
	return def
}

func mixSeed(base uint64, prop string, run int) uint64 {
	h := base*0x9e3779b97f4a7c15 + 0x632be59bd9b4e019
	for i := 0; i < len(prop); i++ {
		h ^= uint64(prop[i])
		h *= 1099511628211
	}
	h ^= uint64(run) * 0xd6e8feb86659fd93
	h ^= h >> 32
	h *= 0xd6e8feb86659fd93
	h ^= h >> 32
	return h
}

// avoidFor decides deterministically whether run number `run` avoids known triggers.
func avoidFor(run int) bool { return run%5 != 4 }

const sketchK = 20000

type sketch struct {
	m map[uint64]struct{}
}

func (k *sketch) add(h uint64) {
	// finalise (splitmix64) so that the kept values are uniform: the driver estimates the number of
	// distinct traces from the K smallest values when the sketch is saturated
	h ^= h >> 30
	h *= 0xbf58476d1ce4e5b9
	h ^= h >> 27
	h *= 0x94d049bb133111eb
	h ^= h >> 31
	if k.m == nil {
		k.m = map[uint64]struct{}{}
	}
	k.m[h] = struct{}{}
	if len(k.m) > 2*sketchK {
		k.compact()
	}
}

func (k *sketch) compact() {
	v := k.values()
	if len(v) > sketchK {
		v = v[:sketchK]
	}
	k.m = make(map[uint64]struct{}, len(v))
	for _, x := range v {
		k.m[x] = struct{}{}
	}
}

func (k *sketch) values() []uint64 {
	v := make([]uint64, 0, len(k.m))
	for x := range k.m {
		v = append(v, x)
	}
	sort.Slice(v, func(i, j int) bool { return v[i] < v[j] })
	return v
}

// Main is the entry point of every engine test binary.
func Main(t *testing.T, props map[string]*Prop) {
	id := os.Getenv("VERIF_PROP")
	if id == "" {
		t.Skip("VERIF_PROP not set")
	}
	p := props[id]
	if p == nil {
		fmt.Printf("HARNESS-ERROR unknown property %s in this engine\n", id)
		os.Exit(4)
	}
	if gm := envInt("VERIF_GOMAXPROCS", 0); gm > 0 {
		runtime.GOMAXPROCS(gm)
	}
	tier := os.Getenv("VERIF_TIER")
	if tier == "" {
		tier = "quick"
	}
	if rp := os.Getenv("VERIF_REPLAY"); rp != "" {
		replayMain(t, p, rp)
		return
	}
	workerMain(t, p, tier)
}

func replayMain(t *testing.T, p *Prop, path string) {
	b, err := os.ReadFile(path)
	if err != nil {
		fmt.Printf("HARNESS-ERROR cannot read replay %s: %v\n", path, err)
		os.Exit(4)
	}
	var rf ReplayFile
	if err := json.Unmarshal(b, &rf); err != nil {
		fmt.Printf("HARNESS-ERROR bad replay file: %v\n", err)
		os.Exit(4)
	}
	var c *Choices
	if len(rf.Tape) == 0 && rf.RawLen == 0 {
		c = NewSeeded(mixSeed(rf.Seed, p.ID, rf.Run))
	} else {
		c = NewTape(rf.Tape)
	}
	out := execOnce(t, p, c, rf.Tier, rf.Avoid, true)
	nlog := 60
	if os.Getenv("VERIF_FULL_LOG") != "" {
		nlog = 1 << 30
	}
	for _, l := range tail(out.Log, nlog) {
		fmt.Println("  ", l)
	}
	if out.Viol != nil {
		fmt.Printf("REPLAY-RESULT violation class=%s trace=%x\n%s\n", out.Viol.Class, out.Trace, out.Viol.Detail)
		if out.Viol.Class == rf.Class {
			fmt.Printf("VIOLATION property=%s replay=%s\n", p.ID, path)
			os.Exit(1)
		}
		fmt.Printf("REPLAY-MISMATCH expected class %s\n", rf.Class)
		os.Exit(3)
	}
	fmt.Printf("REPLAY-RESULT no violation trace=%x\n", out.Trace)
	os.Exit(0)
}

func tail(l []string, n int) []string {
	if len(l) > n {
		return l[len(l)-n:]
	}
	return l
}

func workerMain(t *testing.T, p *Prop, tier string) {
	base := uint64(envInt("VERIF_SEED", 1))
	worker := envInt("VERIF_WORKER", 0)
	nworkers := envInt("VERIF_NWORKERS", 1)
	budget := time.Duration(envInt("VERIF_BUDGET_S", 20)) * time.Second
	maxRuns := envInt("VERIF_MAXRUNS", 0)
	if maxRuns == 0 {
		if tier == "thorough" {
			maxRuns = p.ThoroughRuns
		} else {
			maxRuns = p.QuickRuns
		}
	}
	outDir := os.Getenv("VERIF_OUT")
	if outDir == "" {
		outDir = "."
	}
	root := os.Getenv("VERIF_ROOT")
	if root == "" {
		root = "/verif"
	}
	known := loadKnown(filepath.Join(root, "known_findings.jsonl"), p.ID)
	res := &WorkerResult{Property: p.ID, Worker: worker, Probes: map[string]int{}, Faults: map[string]int{},
		Known: map[string]int{}, KnownWhat: map[string]string{}, SketchK: sketchK,
		Level: p.Level, Rule: p.Rule, Real: p.Real, Stub: p.Stub, Assumptions: p.Assumptions}
	traceRuns := os.Getenv("VERIF_TRACE_RUNS") != ""
	var sk sketch
	start := time.Now()
	write := func() {
		res.WallS = time.Since(start).Seconds()
		res.Sketch = sk.values()
		if len(res.Sketch) > sketchK {
			res.Sketch = res.Sketch[:sketchK]
		}
		b, _ := json.Marshal(res)
		_ = os.WriteFile(filepath.Join(outDir, fmt.Sprintf("worker-%d.json", worker)), b, 0o644)
	}
	perWorkerMax := 0
	if maxRuns > 0 {
		perWorkerMax = (maxRuns + nworkers - 1) / nworkers
	}
	if dr := os.Getenv("VERIF_DEBUG_RUN"); dr != "" {
		// debugging aid: execute one run twice with full event logs and print the first divergence
		var run int
		fmt.Sscanf(dr, "%d", &run)
		seed := mixSeed(base, p.ID, run)
		avoid := len(known) > 0 && avoidFor(run)
		o1 := execOnce(t, p, NewSeeded(seed), tier, avoid, true)
		o2 := execOnce(t, p, NewTape(o1.Tape), tier, avoid, true)
		fmt.Printf("DEBUG-RUN %d traces %x %x fingerprints-equal=%v sample=%v\n", run, o1.Trace, o2.Trace, o1.Trace == o2.Trace, o1.Sample)
		for i := 0; i < len(o1.Log) || i < len(o2.Log); i++ {
			a, b := "<end>", "<end>"
			if i < len(o1.Log) {
				a = o1.Log[i]
			}
			if i < len(o2.Log) {
				b = o2.Log[i]
			}
			if a != b {
				lo := i - 15
				if lo < 0 {
					lo = 0
				}
				fmt.Printf("first divergence at event %d:\n  A: %s\n  B: %s\ncontext: %v\n", i, a, b, o1.Log[lo:i])
				break
			}
		}
		return
	}
	// determinism self-test aid: one line per run (run index, trace hash, tape length, violation class)
	var dumpTraces *os.File
	if dp := os.Getenv("VERIF_DUMP_TRACES"); dp != "" {
		f, err := os.Create(dp)
		if err != nil {
			fmt.Printf("HARNESS-ERROR cannot create %s: %v\n", dp, err)
			os.Exit(4)
		}
		defer f.Close()
		dumpTraces = f
	}
	// real-time watchdog, outside every bubble: a bubble whose scheduler makes no progress (a goroutine
	// blocked where synctest cannot see it, e.g. on a sync.Once's internal mutex) would otherwise hang
	// the worker. Exit code 5 = stalled (harness trouble, never a violation).
	var curRun atomic.Int64
	var loopDone atomic.Bool
	defer loopDone.Store(true)
	go func() {
		limit := time.Duration(envInt("VERIF_STALL_S", 240)) * time.Second
		last, lastAt := Progress.Load(), time.Now()
		for {
			time.Sleep(5 * time.Second)
			if loopDone.Load() {
				return // the run loop is over: what remains is process teardown
			}
			if p := Progress.Load(); p != last {
				last, lastAt = p, time.Now()
				continue
			}
			if time.Since(lastAt) > limit {
				buf := make([]byte, 8<<20)
				n := runtime.Stack(buf, true)
				_ = os.WriteFile(filepath.Join(outDir, fmt.Sprintf("stall-%d.txt", worker)), buf[:n], 0o644)
				res.Stalled = fmt.Sprintf("run %d made no scheduler progress for %v of real time", curRun.Load(), limit)
				write()
				fmt.Printf("HARNESS-STALL worker=%d %s\n", worker, res.Stalled)
				os.Exit(5)
			}
		}
	}()
	for i := 0; ; i++ {
		if perWorkerMax > 0 && i >= perWorkerMax {
			break
		}
		if time.Since(start) > budget {
			break
		}
		run := worker + i*nworkers
		curRun.Store(int64(run))
		Progress.Add(1)
		seed := mixSeed(base, p.ID, run)
		if traceRuns {
			fmt.Fprintf(os.Stderr, "RUN %d\n", run)
		}
		avoid := len(known) > 0 && avoidFor(run)
		out := execOnce(t, p, NewSeeded(seed), tier, avoid, false)
		res.Runs++
		if dumpTraces != nil {
			v := "-"
			if out.Viol != nil {
				v = out.Viol.Class
			}
			fmt.Fprintf(dumpTraces, "%d %016x %d %s\n", run, out.Trace, len(out.Tape), v)
		}
		res.Steps += out.Steps
		res.MultiPicks += out.MultiPicks
		res.SimTimeS += out.SimTime.Seconds()
		for k, v := range out.Probes {
			res.Probes[k] += v
		}
		for k, v := range out.Faults {
			res.Faults[k] += v
		}
		if out.StepLimit {
			res.StepLimited++
		}
		if out.Nontrivial {
			res.Nontrivial++
			sk.add(out.Trace)
		}
		if len(res.Samples) < 3 && out.Sample != nil && (out.Nontrivial || i > 20) {
			res.Samples = append(res.Samples, out.Sample)
		}
		// determinism self-check: re-execute the recorded tape, same trace expected
		if i < 3 || i%97 == 0 {
			res.DetChecks++
			out2 := execOnce(t, p, NewTape(out.Tape), tier, avoid, false)
			if out2.Trace != out.Trace || (out2.Viol == nil) != (out.Viol == nil) {
				res.NonDet = fmt.Sprintf("run %d seed %d: trace %x vs %x on re-execution of the same tape", run, seed, out.Trace, out2.Trace)
				write()
				fmt.Printf("HARNESS-NONDETERMINISM %s\n", res.NonDet)
				return
			}
		}
		if out.Viol == nil {
			continue
		}
		if strings.HasSuffix(out.Viol.Class, "/harness") {
			// the scenario could not be set up or driven as designed (a precondition of the oracle failed):
			// that is no evidence about the property either way, so it is reported as harness trouble
			// (exit 2), never as a violation
			res.HarnessFailures++
			if res.HarnessDetail == "" {
				res.HarnessDetail = fmt.Sprintf("run %d: %s", run, out.Viol.Detail)
			}
			continue
		}
		// known finding?
		if k := matchKnown(known, out.Viol); k != nil {
			res.Known[k.Class]++
			res.KnownWhat[k.Class] = k.What
			if avoid {
				res.Probes["known-finding-seen-in-avoid-run"]++
			}
			continue
		}
		// unlisted violation: shrink, verify replay, report
		rf := shrinkAndPackage(t, p, tier, avoid, base, run, out, known)
		if rf == nil {
			// shrink landed on a known finding only; original is known-equivalent
			continue
		}
		rdir := os.Getenv("VERIF_REPLAY_DIR")
		if rdir == "" {
			rdir = filepath.Join(root, "out", "replay")
		}
		path := filepath.Join(rdir, fmt.Sprintf("%s-%d-%d.json", p.ID, base, run))
		_ = os.MkdirAll(filepath.Dir(path), 0o755)
		b, _ := json.MarshalIndent(rf, "", " ")
		_ = os.WriteFile(path, b, 0o644)
		res.Violation = rf
		res.ReplayPath = path
		write()
		fmt.Printf("WORKER-VIOLATION property=%s class=%s replay=%s\n", p.ID, rf.Class, path)
		return
	}
	write()
}

func matchKnown(known []KnownFinding, v *Violation) *KnownFinding {
	for i := range known {
		if known[i].Class == v.Class {
			return &known[i]
		}
	}
	return nil
}

func shrinkAndPackage(t *testing.T, p *Prop, tier string, avoid bool, base uint64, run int, out Outcome, known []KnownFinding) *ReplayFile {
	class := out.Viol.Class
	execs := 0
	test := func(tape []uint32) bool {
		execs++
		o := execOnce(t, p, NewTape(tape), tier, avoid, false)
		return o.Viol != nil && o.Viol.Class == class
	}
	tape := out.Tape
	// the recorded tape must itself reproduce; otherwise keep raw
	if test(tape) {
		tape = Shrink(tape, test, 600, 90*time.Second)
	}
	final := execOnce(t, p, NewTape(tape), tier, avoid, true)
	if final.Viol == nil || final.Viol.Class != class {
		// not reproducible from tape: report with raw tape; the driver's fresh-process
		// replay verification will classify it as harness nondeterminism.
		final = out
		tape = out.Tape
	}
	return &ReplayFile{
		Property: p.ID, Seed: base, Run: run, Tier: tier, Avoid: avoid,
		Class: class, Detail: final.Viol.Detail, Tape: tape, RawLen: len(out.Tape),
		Sample: final.Sample, LogTail: tail(final.Log, 80), Shrunk: execs,
	}
}

// Shrink minimises a tape while test keeps returning true.
func Shrink(tape []uint32, test func([]uint32) bool, maxExec int, maxTime time.Duration) []uint32 {
	start := time.Now()
	n := 0
	try := func(c []uint32) bool {
		if n >= maxExec || time.Since(start) > maxTime {
			return false
		}
		n++
		return test(c)
	}
	cur := append([]uint32(nil), tape...)
	// 1. shortest prefix (tape past its end reads as 0)
	lo, hi := 0, len(cur)
	for lo < hi {
		mid := (lo + hi) / 2
		if try(cur[:mid]) {
			hi = mid
		} else {
			lo = mid + 1
		}
	}
	if hi < len(cur) && try(cur[:hi]) {
		cur = cur[:hi]
	}
	improved := true
	for improved && n < maxExec && time.Since(start) < maxTime {
		improved = false
		// 2. delete chunks
		for _, sz := range []int{16, 8, 4, 2, 1} {
			for i := len(cur) - sz; i >= 0; i -= sz {
				if i+sz > len(cur) {
					continue
				}
				cand := append(append([]uint32(nil), cur[:i]...), cur[i+sz:]...)
				if try(cand) {
					cur = cand
					improved = true
				}
			}
		}
		// 3. zero chunks, then lower single values
		for _, sz := range []int{8, 2} {
			for i := 0; i+sz <= len(cur); i += sz {
				allZero := true
				for _, v := range cur[i : i+sz] {
					if v != 0 {
						allZero = false
					}
				}
				if allZero {
					continue
				}
				cand := append([]uint32(nil), cur...)
				for j := i; j < i+sz; j++ {
					cand[j] = 0
				}
				if try(cand) {
					cur = cand
					improved = true
				}
			}
		}
		for i := 0; i < len(cur); i++ {
			if cur[i] == 0 {
				continue
			}
			for _, nv := range []uint32{0, cur[i] / 2, cur[i] - 1} {
				if nv >= cur[i] {
					continue
				}
				cand := append([]uint32(nil), cur...)
				cand[i] = nv
				if try(cand) {
					cur = cand
					improved = true
					break
				}
			}
		}
		// trailing zeros are implicit
		for len(cur) > 0 && cur[len(cur)-1] == 0 {
			cur = cur[:len(cur)-1]
		}
	}
	return cur
}

package simk

import (
	"fmt"
	"os"
	"runtime"
	"runtime/debug"
	"sort"
	"strings"
	"sync"
	"sync/atomic"
	"testing"
	"testing/synctest"
	"time"

	"github.com/ava-labs/hypersdk/internal/verifhook"
)

// Violation is an oracle failure.
type Violation struct {
	Class  string `json:"class"`
	Detail string `json:"detail"`
}

type waiter struct {
	site string
	key  uint64
	free func() bool
	ch   chan struct{}
	ord  uint64 // arrival order, only used to break exact (site,key) ties
	// frozen tasks belong to a crashed process incarnation: they are never scheduled again
	frozen bool
	kill   bool
	gid    uint64 // goroutine id, only filled while a gate is installed
}

// Policy selects which enabled task runs next.
type Policy int

const (
	PolUniform Policy = iota
	PolSticky
	PolPriority
	PolFirst
	PolLast
	numPolicies
)

// Sim is one simulated run.
type Sim struct {
	StarveFn func(site string, key uint64) bool
	C        *Choices

	mu       sync.Mutex
	parked   []*waiter
	arrivals uint64
	wakeCh   chan struct{}
	finished atomic.Bool
	closed   atomic.Bool
	passAll  atomic.Bool
	thawed   atomic.Bool
	seq      atomic.Uint64

	// configuration (set by the scenario before Run or at its very start)
	MaxSteps   int
	Horizon    time.Duration // simulated time after which an unfinished run is a hang
	ClockTask  bool          // expose clock advance as a schedulable action
	ClockSteps []time.Duration
	Pass       func(site string) bool // sites that are not scheduling points in this run
	FaultFn    func(site, arg string) error
	FSFn       func(dir string) any
	OnStep     func() // step invariant, evaluated by the scheduler while everything is parked
	// Gate: tasks parked at a site with one of these prefixes only run while GateTokens > 0;
	// every release of such a task consumes one token (lets a scenario advance a background
	// goroutine by an exact number of scheduling steps). Negative = unlimited.
	GatePrefixes []string
	GateTokens   int
	gatedG       map[uint64]bool
	// HoldPrefix: tasks parked at a site with this prefix are not scheduled while it is set (an I/O
	// operation that does not return yet)
	HoldPrefix string

	policy   Policy
	stickyP  float64
	lastSite string
	lastKey  uint64
	prio     map[string]int
	starve   string

	// results
	Steps      int
	MultiPicks int
	MaxEnabled int
	ClockJumps int
	trace      uint64
	Log        []string
	KeepLog    bool
	viol       *Violation
	Hung       bool
	StepLimit  bool
	Leaked     bool
	Probes     map[string]int
	Faults     map[string]int
	start      time.Time
	SimTime    time.Duration
	HangInfo   string
}

func NewSim(c *Choices) *Sim {
	return &Sim{
		C:          c,
		MaxSteps:   20000,
		Horizon:    time.Hour,
		ClockSteps: []time.Duration{time.Millisecond, 10 * time.Millisecond, 100 * time.Millisecond, time.Second, 10 * time.Second},
		Probes:     map[string]int{},
		Faults:     map[string]int{},
		prio:       map[string]int{},
		trace:      14695981039346656037,
		GateTokens: -1,
	}
}

// Seq returns the next global event sequence number.
func (s *Sim) Seq() uint64 { return s.seq.Add(1) }

func (s *Sim) Probe(name string) {
	s.mu.Lock()
	s.Probes[name]++
	s.mu.Unlock()
}

func (s *Sim) FaultFired(kind string) {
	s.mu.Lock()
	s.Faults[kind]++
	s.mu.Unlock()
}

// Violate records the first violation of the run.
func (s *Sim) Violate(class, format string, a ...any) {
	if s.thawed.Load() {
		return
	}
	s.mu.Lock()
	if s.viol == nil {
		s.viol = &Violation{Class: class, Detail: fmt.Sprintf(format, a...)}
	}
	s.mu.Unlock()
}

func (s *Sim) Violation() *Violation {
	s.mu.Lock()
	defer s.mu.Unlock()
	return s.viol
}

func (s *Sim) Failed() bool { return s.Violation() != nil }

func (s *Sim) mix(site string, key uint64) {
	h := s.trace
	for i := 0; i < len(site); i++ {
		h ^= uint64(site[i])
		h *= 1099511628211
	}
	for i := 0; i < 8; i++ {
		h ^= (key >> (8 * i)) & 0xff
		h *= 1099511628211
	}
	s.trace = h
}

// Note folds scenario-level information (state fingerprints, results) into the trace hash.
func (s *Sim) Note(format string, a ...any) {
	msg := fmt.Sprintf(format, a...)
	s.mu.Lock()
	s.mix(msg, 0)
	if s.KeepLog {
		s.Log = append(s.Log, "note "+msg)
	}
	s.mu.Unlock()
}

func (s *Sim) TraceHash() uint64 { return s.trace }

// Yield is a scheduling point: the caller parks until the scheduler picks it.
func (s *Sim) Yield(site string, key uint64) { s.hookYield(site, key, nil) }

func (s *Sim) hookYield(site string, key uint64, free func() bool) {
	if s.closed.Load() || s.passAll.Load() {
		return
	}
	if s.Pass != nil && s.Pass(site) {
		return
	}
	w := &waiter{site: site, key: key, free: free, ch: make(chan struct{})}
	s.mu.Lock()
	if len(s.GatePrefixes) > 0 || len(s.gatedG) > 0 {
		// the gate follows goroutines: a goroutine that once parked at a site with a gate prefix
		// stays gated at every later scheduling point of the run
		w.gid = curGID()
		if !s.gatedG[w.gid] {
			for _, p := range s.GatePrefixes {
				if strings.HasPrefix(site, p) {
					if s.gatedG == nil {
						s.gatedG = map[uint64]bool{}
					}
					s.gatedG[w.gid] = true
					break
				}
			}
		}
	}
	s.arrivals++
	w.ord = s.arrivals
	s.parked = append(s.parked, w)
	s.mu.Unlock()
	select {
	case s.wakeCh <- struct{}{}:
	default:
	}
	<-w.ch
	if w.kill {
		// the process incarnation this goroutine belongs to is being torn down at the end of the run:
		// unwind (deferred functions run with every scheduling point switched off)
		runtime.Goexit()
	}
}

// KillFrozen ends the run for crashed incarnations: every frozen task unwinds via runtime.Goexit
// with all scheduling points switched off, so that deferred clean-up (closing stores, stopping
// tickers) can run and the bubble can end. Call it last, after every oracle was evaluated.
func (s *Sim) KillFrozen() {
	s.passAll.Store(true)
	s.mu.Lock()
	var keep []*waiter
	for _, w := range s.parked {
		if w.frozen {
			w.kill = true
			close(w.ch)
		} else {
			keep = append(keep, w)
		}
	}
	s.parked = keep
	s.mu.Unlock()
}

// ThawAll ends scheduling for the run: every parked task (frozen ones of crashed incarnations
// included) continues on the Go scheduler with all scheduling points switched off, so that a crashed
// incarnation can finish what it was doing and be shut down gracefully (closing stores, stopping
// tickers) before the bubble ends. Call it last, after every oracle was evaluated.
func (s *Sim) ThawAll() {
	s.thawed.Store(true) // nothing that happens from here on is judged
	s.passAll.Store(true)
	s.mu.Lock()
	for _, w := range s.parked {
		close(w.ch)
	}
	s.parked = nil
	s.mu.Unlock()
}

// FreezeParked marks every task that is parked right now, except those whose site has one of the
// given prefixes, as belonging to a crashed process: it stays parked for the rest of the run.
// It returns the sites that were frozen.
func (s *Sim) FreezeParked(exceptPrefixes ...string) []string {
	s.mu.Lock()
	defer s.mu.Unlock()
	var sites []string
outer:
	for _, w := range s.parked {
		if w.frozen {
			continue
		}
		for _, p := range exceptPrefixes {
			if strings.HasPrefix(w.site, p) {
				continue outer
			}
		}
		w.frozen = true
		sites = append(sites, w.site)
	}
	sort.Strings(sites)
	return sites
}

// Go starts a task; it begins parked at site "go:"+name with the given key.
func (s *Sim) Go(name string, key uint64, fn func()) {
	go func() {
		defer func() {
			if r := recover(); r != nil {
				s.Violate("panic", "task %s: %v\n%s", name, r, trimStack(debug.Stack()))
			}
			select {
			case s.wakeCh <- struct{}{}:
			default:
			}
		}()
		s.Yield("go:"+name, key)
		fn()
	}()
}

func trimStack(b []byte) string {
	lines := strings.Split(string(b), "\n")
	if len(lines) > 24 {
		lines = lines[:24]
	}
	return strings.Join(lines, "\n")
}

func (s *Sim) choosePolicy() {
	s.policy = Policy(s.C.Intn(int(numPolicies)))
	switch s.policy {
	case PolSticky:
		s.stickyP = []float64{0.5, 0.8, 0.95}[s.C.Intn(3)]
	}
}

// SetStarve makes tasks whose site has the given prefix run only when nothing else can.
func (s *Sim) SetStarve(prefix string) { s.starve = prefix }

// StarveFn, if set, marks tasks (by the site and key of their current scheduling point) that run only
// when nothing else can: an adversarial "slow component" policy, e.g. the fetch of one particular key.

func (s *Sim) enabled() []*waiter {
	s.mu.Lock()
	ws := make([]*waiter, 0, len(s.parked))
	for _, w := range s.parked {
		if w.frozen || (s.GateTokens == 0 && s.gated(w)) || s.held(w) {
			continue
		}
		if w.free == nil || w.free() {
			ws = append(ws, w)
		}
	}
	s.mu.Unlock()
	sort.Slice(ws, func(i, j int) bool {
		if ws[i].site != ws[j].site {
			return ws[i].site < ws[j].site
		}
		if ws[i].key != ws[j].key {
			return ws[i].key < ws[j].key
		}
		return ws[i].ord < ws[j].ord
	})
	return ws
}

func (s *Sim) nParked() int {
	s.mu.Lock()
	defer s.mu.Unlock()
	return len(s.parked)
}

func (s *Sim) held(w *waiter) bool {
	return s.HoldPrefix != "" && strings.HasPrefix(w.site, s.HoldPrefix)
}

func (s *Sim) gated(w *waiter) bool { return w.gid != 0 && s.gatedG[w.gid] }

// curGID parses the current goroutine's id out of its stack header.
// GID returns the calling goroutine's id (for harness stubs that behave differently for one task).
func GID() uint64 { return curGID() }

func curGID() uint64 {
	var buf [64]byte
	b := buf[:runtime.Stack(buf[:], false)]
	b = b[len("goroutine "):]
	var id uint64
	for _, c := range b {
		if c < '0' || c > '9' {
			break
		}
		id = id*10 + uint64(c-'0')
	}
	return id
}

// WaitGate parks the caller until the gate tokens are used up or no gated task is waiting to run
// (e.g. the background goroutine is blocked on an empty queue). While it waits only gated tasks
// and other non-gated tasks run; the wait itself needs no fairness assumption.
func (s *Sim) WaitGate() {
	s.hookYield("gate.wait", 0, func() bool {
		// evaluated by the scheduler with s.mu held and every goroutine quiescent
		if s.GateTokens == 0 {
			return true
		}
		for _, w := range s.parked {
			if !w.frozen && s.gated(w) && !s.held(w) {
				return false
			}
		}
		return true
	})
}

// Settle parks the caller until no other task is waiting to run: every other task has finished or
// blocks on something only the caller can provide. It needs no fairness assumption (the caller is
// simply not enabled while others are).
func (s *Sim) Settle() {
	s.hookYield("settle", 0, func() bool {
		for _, w := range s.parked {
			if w.site == "settle" || w.frozen || (s.GateTokens == 0 && s.gated(w)) || s.held(w) {
				continue
			}
			return false
		}
		return true
	})
}

// GatedPos reports where the (first) gated task is parked right now; ok=false if none is parked.
func (s *Sim) GatedPos() (site string, key uint64, ok bool) {
	s.mu.Lock()
	defer s.mu.Unlock()
	for _, w := range s.parked {
		if !w.frozen && s.gated(w) && !s.held(w) {
			return w.site, w.key, true
		}
	}
	return "", 0, false
}

// GatedSites lists where the gated tasks are parked right now (sorted).
func (s *Sim) GatedSites() []string {
	s.mu.Lock()
	defer s.mu.Unlock()
	var out []string
	for _, w := range s.parked {
		if !w.frozen && s.gated(w) {
			out = append(out, w.site)
		}
	}
	sort.Strings(out)
	return out
}

// FreeRun executes f with every scheduling point switched off (code runs on the Go scheduler).
// Used for teardown such as VM.Shutdown, which takes locks inside sync.Once bodies where a parked
// task would make other goroutines block on the Once's internal mutex, invisible to synctest.
// No task may be parked holding a lock that f needs, and no goroutine f waits for may be parked:
// call Settle first, so that every background task has run (under the scheduler) to its idle state.
func (s *Sim) FreeRun(f func()) {
	prev := s.passAll.Swap(true)
	defer s.passAll.Store(prev)
	f()
}

// SetGate installs (or clears) the gate. Safe to call from the scenario task.
func (s *Sim) SetGate(tokens int, prefixes ...string) {
	s.mu.Lock()
	s.GatePrefixes = prefixes
	s.GateTokens = tokens
	s.mu.Unlock()
}

func (s *Sim) release(w *waiter) {
	s.mu.Lock()
	if s.GateTokens > 0 && s.gated(w) {
		s.GateTokens--
	}
	for i, x := range s.parked {
		if x == w {
			s.parked = append(s.parked[:i], s.parked[i+1:]...)
			break
		}
	}
	s.mix(w.site, w.key)
	if s.KeepLog {
		s.Log = append(s.Log, fmt.Sprintf("%d run %s/%x", s.Steps, w.site, w.key))
	}
	s.mu.Unlock()
	s.lastSite, s.lastKey = w.site, w.key
	close(w.ch)
}

func (s *Sim) pick(ws []*waiter, withClock bool) int {
	n := len(ws)
	total := n
	if withClock {
		total++
	}
	if total == 1 {
		return 0
	}
	if s.starve != "" || s.StarveFn != nil {
		// candidates = non-starved ones if any
		var idx []int
		for i, w := range ws {
			starved := (s.starve != "" && strings.HasPrefix(w.site, s.starve)) || (s.StarveFn != nil && s.StarveFn(w.site, w.key))
			if !starved {
				idx = append(idx, i)
			}
		}
		if len(idx) > 0 && len(idx) < n {
			if s.C.Bool(0.97) || true {
				sub := make([]*waiter, len(idx))
				for i, j := range idx {
					sub[i] = ws[j]
				}
				k := s.pickPlain(sub, false)
				return idx[k]
			}
		}
	}
	return s.pickPlain(ws, withClock)
}

func (s *Sim) pickPlain(ws []*waiter, withClock bool) int {
	n := len(ws)
	total := n
	if withClock {
		total++
	}
	if total == 1 {
		return 0
	}
	switch s.policy {
	case PolSticky:
		for i, w := range ws {
			if w.site == s.lastSite && w.key == s.lastKey {
				if s.C.Bool(s.stickyP) {
					return i
				}
				break
			}
		}
		// sticky also follows the same key to a new site (a task moving on)
		for i, w := range ws {
			if w.key == s.lastKey && w.key != 0 {
				if s.C.Bool(s.stickyP) {
					return i
				}
				break
			}
		}
		return s.C.Intn(total)
	case PolPriority:
		best, bestP := -1, -1
		for i, w := range ws {
			id := fmt.Sprintf("%s/%x", w.site, w.key)
			p, ok := s.prio[id]
			if !ok {
				p = s.C.Intn(1000)
				s.prio[id] = p
			}
			if p > bestP {
				best, bestP = i, p
			}
		}
		if s.C.Bool(0.1) { // change point
			return s.C.Intn(total)
		}
		return best
	case PolFirst:
		if s.C.Bool(0.85) {
			return 0
		}
		return s.C.Intn(total)
	case PolLast:
		if s.C.Bool(0.85) {
			return n - 1
		}
		return s.C.Intn(total)
	default:
		return s.C.Intn(total)
	}
}

// Progress counts scheduler iterations and run starts of this process; the worker's real-time
// watchdog (outside every bubble) reads it to tell a stalled bubble from a slow one.
var Progress atomic.Uint64

func (s *Sim) loop() {
	deadline := time.Now().Add(s.Horizon)
	for {
		Progress.Add(1)
		synctest.Wait()
		if s.OnStep != nil {
			s.OnStep()
		}
		if s.Failed() {
			return
		}
		if s.Steps >= s.MaxSteps {
			s.StepLimit = !s.finished.Load()
			return
		}
		ws := s.enabled()
		if s.finished.Load() && len(ws) == 0 {
			// epilogue done: whatever is still parked stays parked (never released
			// unscheduled: a task let loose could block on a mutex whose holder is
			// parked, which synctest cannot see as blocked)
			return
		}
		if len(ws) == 0 {
			// nothing runnable: discrete-event jump to the next timer, or hang
			remain := time.Until(deadline)
			if remain <= 0 {
				s.Hung = true
				s.HangInfo = s.describeParked()
				return
			}
			select {
			case <-s.wakeCh:
			case <-time.After(remain):
			}
			s.ClockJumps++
			continue
		}
		withClock := s.ClockTask
		if len(ws) > s.MaxEnabled {
			s.MaxEnabled = len(ws)
		}
		if len(ws) >= 2 {
			s.MultiPicks++
		}
		i := s.pick(ws, withClock)
		s.Steps++
		if s.KeepLog && os.Getenv("VERIF_LOG_ENABLED") != "" {
			var names []string
			for _, w := range ws {
				names = append(names, fmt.Sprintf("%s/%x", w.site, w.key))
			}
			s.mu.Lock()
			var all []string
			for _, w := range s.parked {
				all = append(all, fmt.Sprintf("%s/%x#%d", w.site, w.key, w.ord))
			}
			sort.Strings(all)
			s.Log = append(s.Log, fmt.Sprintf("%d enabled %v pick %d parked %v", s.Steps, names, i, all))
			s.mu.Unlock()
		}
		if i >= len(ws) {
			d := s.ClockSteps[s.C.Intn(len(s.ClockSteps))]
			s.mu.Lock()
			s.mix("CLOCK", uint64(d))
			if s.KeepLog {
				s.Log = append(s.Log, fmt.Sprintf("%d clock +%v", s.Steps, d))
			}
			s.mu.Unlock()
			time.Sleep(d)
			continue
		}
		s.release(ws[i])
	}
}

func (s *Sim) describeParked() string {
	s.mu.Lock()
	defer s.mu.Unlock()
	var sb []string
	for _, w := range s.parked {
		st := "ready"
		if w.free != nil {
			st = "lockwait"
		}
		sb = append(sb, fmt.Sprintf("%s/%x(%s)", w.site, w.key, st))
	}
	sort.Strings(sb)
	return strings.Join(sb, " ")
}

// Run executes scenario as the main task inside a fresh bubble under the scheduler.
func (s *Sim) Run(t *testing.T, scenario func()) {
	defer s.closed.Store(true)
	defer func() {
		if r := recover(); r != nil {
			msg := fmt.Sprint(r)
			if strings.Contains(msg, "deadlock") || strings.Contains(msg, "blocked goroutines") {
				s.Leaked = true
				return
			}
			s.Violate("panic", "bubble: %v", r)
		}
	}()
	synctest.Test(t, func(t *testing.T) {
		s.start = time.Now()
		s.wakeCh = make(chan struct{}, 1) // must belong to the bubble so that waiting on it is durable
		s.choosePolicy()
		verifhook.Install(&verifhook.Hooks{
			Yield: s.hookYield,
			Fault: func(site, arg string) error {
				if s.closed.Load() || s.FaultFn == nil {
					return nil
				}
				return s.FaultFn(site, arg)
			},
			FS: func(dir string) any {
				if s.FSFn == nil {
					return nil
				}
				return s.FSFn(dir)
			},
		})
		defer verifhook.Install(nil)
		go func() {
			defer func() {
				if r := recover(); r != nil {
					s.Violate("panic", "scenario: %v\n%s", r, trimStack(debug.Stack()))
				}
				s.finished.Store(true)
				select {
				case s.wakeCh <- struct{}{}:
				default:
				}
			}()
			scenario()
		}()
		s.loop()
		s.SimTime = time.Since(s.start)
	})
}
